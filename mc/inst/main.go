// Command inst rewrites the CURRENT sources of a zerolog tree for the
// controlled scheduler and emits a go build overlay. /repo is never written.
//
//	inst -repo /repo -out /verif/.build/ov -mcrt /verif/mc/mcrt
//
// Rewrites (purely syntactic):
//
//	import "sync"         -> sync "github.com/rs/zerolog/mcrt/msync"
//	import "sync/atomic"  -> atomic "github.com/rs/zerolog/mcrt/matomic"
//	go f(x)               -> mcrt.Go(func() { f(x) })
//	<-ch  (statement)     -> mcrt.RecvStruct(ch)
//	select{case <-ch: A; default: B} -> if mcrt.TryRecvStruct(ch) {A} else {B}
//	close(ch)             -> mcrt.Close(ch)
//	time.Sleep(d)         -> mcrt.Sleep(d)
//	os.Exit(c)            -> mcrt.Exit(c)
//	log.Println(..)       -> mcrt.Logln(..)   (std "log" only)
//
// Any concurrency construct it does not know (channel send, value-producing
// receive, multi-way select, range over channel expression it can see) makes
// it fail with exit status 2: "instrumentation incomplete".
package main

import (
	"bytes"
	"encoding/json"
	"flag"
	"fmt"
	"go/ast"
	"go/parser"
	"go/printer"
	"go/token"
	"os"
	"path/filepath"
	"sort"
	"strconv"
	"strings"
)

const mcrtPath = "github.com/rs/zerolog/mcrt"

var problems []string

func fail(fset *token.FileSet, pos token.Pos, msg string) {
	problems = append(problems, fmt.Sprintf("%s: %s", fset.Position(pos), msg))
}

func main() {
	repo := flag.String("repo", "/repo", "zerolog tree")
	out := flag.String("out", "", "output directory for rewritten files and overlay.json")
	mcrtDir := flag.String("mcrt", "", "directory holding the mcrt runtime sources")
	bridge := flag.String("bridge", "", "directory holding bridge files to mount into the root package")
	noRewrite := flag.Bool("plain", false, "only mount mcrt and bridge files, rewrite nothing")
	flag.Parse()
	if *out == "" || *mcrtDir == "" {
		fmt.Fprintln(os.Stderr, "inst: -out and -mcrt are required")
		os.Exit(2)
	}
	abs := func(p string) string {
		a, err := filepath.Abs(p)
		if err != nil {
			panic(err)
		}
		return a
	}
	*repo, *out, *mcrtDir = abs(*repo), abs(*out), abs(*mcrtDir)
	os.RemoveAll(*out)
	if err := os.MkdirAll(*out, 0o755); err != nil {
		panic(err)
	}
	replace := map[string]string{}

	// mount the runtime as a virtual package tree
	filepath.Walk(*mcrtDir, func(p string, info os.FileInfo, err error) error {
		if err != nil || info.IsDir() || !strings.HasSuffix(p, ".go") {
			return nil
		}
		rel, _ := filepath.Rel(*mcrtDir, p)
		replace[filepath.Join(*repo, "mcrt", rel)] = p
		return nil
	})
	if *bridge != "" {
		ents, _ := os.ReadDir(*bridge)
		for _, e := range ents {
			if strings.HasSuffix(e.Name(), ".go") {
				replace[filepath.Join(*repo, "verif_"+e.Name())] = filepath.Join(abs(*bridge), e.Name())
			}
		}
	}

	nfiles, nrew := 0, 0
	counts := map[string]int{}
	if !*noRewrite {
		filepath.Walk(*repo, func(p string, info os.FileInfo, err error) error {
			if err != nil {
				return nil
			}
			rel, _ := filepath.Rel(*repo, p)
			if info.IsDir() {
				if rel == "cmd" || rel == ".git" || rel == "mcrt" || strings.HasPrefix(filepath.Base(p), ".") && rel != "." {
					return filepath.SkipDir
				}
				return nil
			}
			if !strings.HasSuffix(p, ".go") || strings.HasSuffix(p, "_test.go") {
				return nil
			}
			nfiles++
			src, err := os.ReadFile(p)
			if err != nil {
				panic(err)
			}
			res, changed := rewrite(p, src, counts)
			if !changed {
				return nil
			}
			nrew++
			dst := filepath.Join(*out, rel)
			os.MkdirAll(filepath.Dir(dst), 0o755)
			if err := os.WriteFile(dst, res, 0o644); err != nil {
				panic(err)
			}
			replace[p] = dst
			return nil
		})
	}
	if len(problems) > 0 {
		fmt.Fprintln(os.Stderr, "inst: instrumentation incomplete:")
		for _, p := range problems {
			fmt.Fprintln(os.Stderr, "  "+p)
		}
		os.Exit(2)
	}
	ov, _ := json.MarshalIndent(map[string]interface{}{"Replace": replace}, "", " ")
	if err := os.WriteFile(filepath.Join(*out, "overlay.json"), ov, 0o644); err != nil {
		panic(err)
	}
	var ks []string
	for k, v := range counts {
		ks = append(ks, k+"="+strconv.Itoa(v))
	}
	sort.Strings(ks)
	fmt.Printf("inst: scanned %d files, rewrote %d (%s)\n", nfiles, nrew, strings.Join(ks, " "))
}

func importName(f *ast.File, path string) (string, *ast.ImportSpec) {
	for _, im := range f.Imports {
		p, _ := strconv.Unquote(im.Path.Value)
		if p == path {
			if im.Name != nil {
				return im.Name.Name, im
			}
			return filepath.Base(path), im
		}
	}
	return "", nil
}

func rewrite(path string, src []byte, counts map[string]int) ([]byte, bool) {
	fset := token.NewFileSet()
	f, err := parser.ParseFile(fset, path, src, parser.ParseComments)
	if err != nil {
		fmt.Fprintf(os.Stderr, "inst: parse %s: %v\n", path, err)
		os.Exit(2)
	}
	changed := false
	needMcrt := false
	keep := map[string]string{} // pkg name -> symbol to reference so the import stays used

	if name, im := importName(f, "sync"); im != nil {
		if name == "_" || name == "." {
			fail(fset, im.Pos(), "unsupported import form of sync")
		}
		im.Path.Value = strconv.Quote(mcrtPath + "/msync")
		im.Name = ast.NewIdent(name)
		changed = true
		counts["sync"]++
	}
	if name, im := importName(f, "sync/atomic"); im != nil {
		if name == "_" || name == "." {
			fail(fset, im.Pos(), "unsupported import form of sync/atomic")
		}
		im.Path.Value = strconv.Quote(mcrtPath + "/matomic")
		im.Name = ast.NewIdent(name)
		changed = true
		counts["atomic"]++
	}
	timeName, _ := importName(f, "time")
	osName, _ := importName(f, "os")
	logName, _ := importName(f, "log")

	mc := func(fn string, args ...ast.Expr) *ast.CallExpr {
		needMcrt = true
		changed = true
		return &ast.CallExpr{Fun: &ast.SelectorExpr{X: ast.NewIdent("mcrt"), Sel: ast.NewIdent(fn)}, Args: args}
	}
	isPkgCall := func(c *ast.CallExpr, pkg, fn string) bool {
		if pkg == "" {
			return false
		}
		se, ok := c.Fun.(*ast.SelectorExpr)
		if !ok {
			return false
		}
		id, ok := se.X.(*ast.Ident)
		return ok && id.Name == pkg && id.Obj == nil && se.Sel.Name == fn
	}
	simpleArg := func(e ast.Expr) bool {
		ok := true
		ast.Inspect(e, func(n ast.Node) bool {
			switch n.(type) {
			case *ast.CallExpr, *ast.UnaryExpr, *ast.FuncLit:
				ok = false
			}
			return ok
		})
		return ok
	}
	hasBareBreak := func(stmts []ast.Stmt) bool {
		found := false
		var walk func(n ast.Node) bool
		walk = func(n ast.Node) bool {
			switch x := n.(type) {
			case *ast.ForStmt, *ast.RangeStmt, *ast.SwitchStmt, *ast.TypeSwitchStmt, *ast.SelectStmt, *ast.FuncLit:
				return false
			case *ast.BranchStmt:
				if x.Tok == token.BREAK && x.Label == nil {
					found = true
				}
			}
			return true
		}
		for _, s := range stmts {
			ast.Inspect(s, walk)
		}
		return found
	}

	// statement-level rewrites need parent access: walk block lists
	var rewriteStmt func(s ast.Stmt) ast.Stmt
	var rewriteList func(list []ast.Stmt)
	recvOf := func(e ast.Expr) (ast.Expr, bool) {
		for {
			if p, ok := e.(*ast.ParenExpr); ok {
				e = p.X
				continue
			}
			break
		}
		if u, ok := e.(*ast.UnaryExpr); ok && u.Op == token.ARROW {
			return u.X, true
		}
		return nil, false
	}
	rewriteStmt = func(s ast.Stmt) ast.Stmt {
		switch x := s.(type) {
		case *ast.GoStmt:
			counts["go"]++
			if fl, ok := x.Call.Fun.(*ast.FuncLit); ok && len(x.Call.Args) == 0 {
				return &ast.ExprStmt{X: mc("Go", fl)}
			}
			for _, a := range x.Call.Args {
				if !simpleArg(a) {
					fail(fset, x.Pos(), "go statement with non-trivial argument expressions")
				}
			}
			if !simpleArg(x.Call.Fun) {
				fail(fset, x.Pos(), "go statement with non-trivial function expression")
			}
			body := &ast.BlockStmt{List: []ast.Stmt{&ast.ExprStmt{X: x.Call}}}
			return &ast.ExprStmt{X: mc("Go", &ast.FuncLit{Type: &ast.FuncType{Params: &ast.FieldList{}}, Body: body})}
		case *ast.ExprStmt:
			if ch, ok := recvOf(x.X); ok {
				counts["recv"]++
				return &ast.ExprStmt{X: mc("RecvStruct", ch)}
			}
		case *ast.SendStmt:
			fail(fset, x.Pos(), "channel send is not modelled")
		case *ast.SelectStmt:
			var recvCase, defCase *ast.CommClause
			okShape := len(x.Body.List) == 2
			for _, c := range x.Body.List {
				cc := c.(*ast.CommClause)
				if cc.Comm == nil {
					defCase = cc
				} else if es, ok := cc.Comm.(*ast.ExprStmt); ok {
					if _, isRecv := recvOf(es.X); isRecv {
						recvCase = cc
					}
				}
			}
			if !okShape || recvCase == nil || defCase == nil {
				fail(fset, x.Pos(), "select shape is not modelled (only `case <-ch:` + `default:`)")
				return s
			}
			if hasBareBreak(recvCase.Body) || hasBareBreak(defCase.Body) {
				fail(fset, x.Pos(), "select with a bare break is not modelled")
				return s
			}
			counts["select"]++
			ch, _ := recvOf(recvCase.Comm.(*ast.ExprStmt).X)
			rewriteList(recvCase.Body)
			rewriteList(defCase.Body)
			return &ast.IfStmt{
				Cond: mc("TryRecvStruct", ch),
				Body: &ast.BlockStmt{List: recvCase.Body},
				Else: &ast.BlockStmt{List: defCase.Body},
			}
		}
		return s
	}
	rewriteList = func(list []ast.Stmt) {
		for i, s := range list {
			list[i] = rewriteStmt(s)
		}
	}
	ast.Inspect(f, func(n ast.Node) bool {
		switch x := n.(type) {
		case *ast.BlockStmt:
			rewriteList(x.List)
		case *ast.CaseClause:
			rewriteList(x.Body)
		case *ast.CommClause:
			rewriteList(x.Body)
		case *ast.LabeledStmt:
			x.Stmt = rewriteStmt(x.Stmt)
		case *ast.IfStmt:
			if x.Else != nil {
				if _, isBlock := x.Else.(*ast.BlockStmt); !isBlock {
					if _, isIf := x.Else.(*ast.IfStmt); !isIf {
						x.Else = rewriteStmt(x.Else)
					}
				}
			}
		}
		return true
	})
	// expression-level rewrites
	ast.Inspect(f, func(n ast.Node) bool {
		switch x := n.(type) {
		case *ast.CallExpr:
			if id, ok := x.Fun.(*ast.Ident); ok && id.Name == "close" && id.Obj == nil && len(x.Args) == 1 {
				counts["close"]++
				x.Fun = mc("Close").Fun
			} else if isPkgCall(x, timeName, "Sleep") {
				counts["sleep"]++
				x.Fun = mc("Sleep").Fun
				keep[timeName] = "Sleep"
			} else if isPkgCall(x, osName, "Exit") {
				counts["exit"]++
				x.Fun = mc("Exit").Fun
				keep[osName] = "Exit"
			} else if isPkgCall(x, logName, "Println") {
				counts["logln"]++
				x.Fun = mc("Logln").Fun
				keep[logName] = "Println"
			}
		case *ast.UnaryExpr:
			if x.Op == token.ARROW {
				// a receive that survived the statement rewrite produces a value: not modelled
				fail(fset, x.Pos(), "value-producing channel receive is not modelled")
			}
		case *ast.RangeStmt:
			// cannot type-check; flag only the obvious `range <chan-typed field named done/ch>`
		}
		return true
	})
	if !changed {
		return nil, false
	}
	if needMcrt {
		spec := &ast.ImportSpec{Name: ast.NewIdent("mcrt"), Path: &ast.BasicLit{Kind: token.STRING, Value: strconv.Quote(mcrtPath)}}
		done := false
		for _, d := range f.Decls {
			if gd, ok := d.(*ast.GenDecl); ok && gd.Tok == token.IMPORT {
				if !gd.Lparen.IsValid() {
					gd.Lparen = gd.Pos()
					gd.Rparen = gd.End()
				}
				gd.Specs = append(gd.Specs, spec)
				done = true
				break
			}
		}
		if !done {
			decl := &ast.GenDecl{Tok: token.IMPORT, Specs: []ast.Spec{spec}}
			f.Decls = append([]ast.Decl{decl}, f.Decls...)
		}
		f.Imports = append(f.Imports, spec)
	}
	// Drop comments below the package clause: rewritten nodes carry no
	// positions and the printer could misplace them. Build constraints and
	// the package doc (above the clause) are kept.
	var kept []*ast.CommentGroup
	for _, cg := range f.Comments {
		if cg.End() < f.Package {
			kept = append(kept, cg)
		}
	}
	f.Comments = kept
	var buf bytes.Buffer
	cfg := printer.Config{Mode: printer.UseSpaces | printer.TabIndent, Tabwidth: 8}
	if err := cfg.Fprint(&buf, fset, f); err != nil {
		fmt.Fprintf(os.Stderr, "inst: print %s: %v\n", path, err)
		os.Exit(2)
	}
	var ks []string
	for k := range keep {
		ks = append(ks, k)
	}
	sort.Strings(ks)
	for _, k := range ks {
		fmt.Fprintf(&buf, "\nvar _ = %s.%s\n", k, keep[k])
	}
	return buf.Bytes(), true
}
