// Command inst rewrites the CURRENT sources of a zerolog tree for the
// controlled scheduler and emits a go build overlay. /repo is never written.
//
//	inst -repo /repo -out /verif/.build/ov -mcrt /verif/mc/mcrt
//
// Rewrites (purely syntactic):
//
//	import "sync"         -> sync "github.com/rs/zerolog/mcrt/msync"
//	import "sync/atomic"  -> atomic "github.com/rs/zerolog/mcrt/matomic"
//	go f(x)               -> mcrt.Go(func() { f(x) })
//	<-ch  (statement)     -> mcrt.RecvStruct(ch)
//	select{case <-ch: A; default: B} -> if mcrt.TryRecvStruct(ch) {A} else {B}
//	close(ch)             -> mcrt.Close(ch)
//	time.Sleep(d)         -> mcrt.Sleep(d)
//	os.Exit(c)            -> mcrt.Exit(c)
//	log.Println(..)       -> mcrt.Logln(..)   (std "log" only)
//
// Any concurrency construct it does not know (channel send, value-producing
// receive, multi-way select, range over channel expression it can see) makes
// it fail with exit status 2: "instrumentation incomplete".
package main

import (
	"bytes"
	"encoding/json"
	"flag"
	"fmt"
	"go/ast"
	"go/parser"
	"go/printer"
	"go/token"
	"os"
	"path/filepath"
	"reflect"
	"regexp"
	"sort"
	"strconv"
	"strings"
)

const mcrtPath = "github.com/rs/zerolog/mcrt"

var problems []string

func fail(fset *token.FileSet, pos token.Pos, msg string) {
	problems = append(problems, fmt.Sprintf("%s: %s", fset.Position(pos), msg))
}

func main() {
	repo := flag.String("repo", "/repo", "zerolog tree")
	out := flag.String("out", "", "output directory for rewritten files and overlay.json")
	mcrtDir := flag.String("mcrt", "", "directory holding the mcrt runtime sources")
	bridge := flag.String("bridge", "", "directory holding bridge files to mount into the root package")
	noRewrite := flag.Bool("plain", false, "only mount mcrt and bridge files, rewrite nothing")
	flag.Parse()
	if *out == "" || *mcrtDir == "" {
		fmt.Fprintln(os.Stderr, "inst: -out and -mcrt are required")
		os.Exit(2)
	}
	abs := func(p string) string {
		a, err := filepath.Abs(p)
		if err != nil {
			panic(err)
		}
		return a
	}
	*repo, *out, *mcrtDir = abs(*repo), abs(*out), abs(*mcrtDir)
	os.RemoveAll(*out)
	if err := os.MkdirAll(*out, 0o755); err != nil {
		panic(err)
	}
	replace := map[string]string{}

	// mount the runtime as a virtual package tree
	filepath.Walk(*mcrtDir, func(p string, info os.FileInfo, err error) error {
		if err != nil || info.IsDir() || !strings.HasSuffix(p, ".go") {
			return nil
		}
		rel, _ := filepath.Rel(*mcrtDir, p)
		replace[filepath.Join(*repo, "mcrt", rel)] = p
		return nil
	})
	if *bridge != "" {
		ents, _ := os.ReadDir(*bridge)
		for _, e := range ents {
			if strings.HasSuffix(e.Name(), ".go") {
				replace[filepath.Join(*repo, "verif_"+e.Name())] = filepath.Join(abs(*bridge), e.Name())
			}
		}
	}

	nfiles, nrew := 0, 0
	counts := map[string]int{}
	if !*noRewrite {
		filepath.Walk(*repo, func(p string, info os.FileInfo, err error) error {
			if err != nil {
				return nil
			}
			rel, _ := filepath.Rel(*repo, p)
			if info.IsDir() {
				if rel == "cmd" || rel == ".git" || rel == "mcrt" || strings.HasPrefix(filepath.Base(p), ".") && rel != "." {
					return filepath.SkipDir
				}
				return nil
			}
			if !strings.HasSuffix(p, ".go") || strings.HasSuffix(p, "_test.go") {
				return nil
			}
			nfiles++
			src, err := os.ReadFile(p)
			if err != nil {
				panic(err)
			}
			res, changed := rewrite(p, src, counts)
			if !changed {
				return nil
			}
			nrew++
			dst := filepath.Join(*out, rel)
			os.MkdirAll(filepath.Dir(dst), 0o755)
			if err := os.WriteFile(dst, res, 0o644); err != nil {
				panic(err)
			}
			replace[p] = dst
			return nil
		})
	}
	if len(problems) > 0 {
		fmt.Fprintln(os.Stderr, "inst: instrumentation incomplete:")
		for _, p := range problems {
			fmt.Fprintln(os.Stderr, "  "+p)
		}
		os.Exit(2)
	}
	ov, _ := json.MarshalIndent(map[string]interface{}{"Replace": replace}, "", " ")
	if err := os.WriteFile(filepath.Join(*out, "overlay.json"), ov, 0o644); err != nil {
		panic(err)
	}
	var ks []string
	for k, v := range counts {
		ks = append(ks, k+"="+strconv.Itoa(v))
	}
	sort.Strings(ks)
	fmt.Printf("inst: scanned %d files, rewrote %d (%s)\n", nfiles, nrew, strings.Join(ks, " "))
}

func importName(f *ast.File, path string) (string, *ast.ImportSpec) {
	for _, im := range f.Imports {
		p, _ := strconv.Unquote(im.Path.Value)
		if p == path {
			if im.Name != nil {
				return im.Name.Name, im
			}
			return filepath.Base(path), im
		}
	}
	return "", nil
}

var makeChanRe = regexp.MustCompile(`make\(chan ([A-Za-z0-9_.*\[\]{}]+)(, ?0)?\)`)

// chanNames: identifiers / field names declared with a channel type in this file (range heuristic).
var chanNames map[string]bool

func isChanName(e ast.Expr) bool {
	switch x := e.(type) {
	case *ast.Ident:
		return chanNames[x.Name]
	case *ast.SelectorExpr:
		return chanNames[x.Sel.Name]
	}
	return false
}

func reflectIsNil(n ast.Node) bool {
	switch x := n.(type) {
	case ast.Stmt:
		return x == nil || reflect.ValueOf(x).IsNil()
	case ast.Expr:
		return x == nil || reflect.ValueOf(x).IsNil()
	}
	return false
}

func rewrite(path string, src []byte, counts map[string]int) ([]byte, bool) {
	preChanged := false
	if makeChanRe.Match(src) {
		// unbuffered channels become one-slot rendezvous channels known to the runtime
		src = makeChanRe.ReplaceAll(src, []byte("mcrt.ChanMake(make(chan $1, 1)).(chan $1)"))
		preChanged = true
		counts["makechan"]++
	}
	fset := token.NewFileSet()
	f, err := parser.ParseFile(fset, path, src, parser.ParseComments)
	if err != nil {
		fmt.Fprintf(os.Stderr, "inst: parse %s: %v\n", path, err)
		os.Exit(2)
	}
	changed := preChanged
	needMcrt := preChanged
	chanNames = map[string]bool{}
	ast.Inspect(f, func(n ast.Node) bool {
		switch x := n.(type) {
		case *ast.Field:
			if _, ok := x.Type.(*ast.ChanType); ok {
				for _, nm := range x.Names {
					chanNames[nm.Name] = true
				}
			}
		case *ast.ValueSpec:
			if _, ok := x.Type.(*ast.ChanType); ok {
				for _, nm := range x.Names {
					chanNames[nm.Name] = true
				}
			}
		case *ast.AssignStmt:
			for i, r := range x.Rhs {
				if c, ok := r.(*ast.TypeAssertExpr); ok {
					if _, isChan := c.Type.(*ast.ChanType); isChan && i < len(x.Lhs) {
						if id, ok := x.Lhs[i].(*ast.Ident); ok {
							chanNames[id.Name] = true
						}
					}
				}
				if c, ok := r.(*ast.CallExpr); ok {
					if id, ok := c.Fun.(*ast.Ident); ok && id.Name == "make" && len(c.Args) > 0 {
						if _, isChan := c.Args[0].(*ast.ChanType); isChan && i < len(x.Lhs) {
							if id, ok := x.Lhs[i].(*ast.Ident); ok {
								chanNames[id.Name] = true
							}
						}
					}
				}
			}
		}
		return true
	})
	keep := map[string]string{} // pkg name -> symbol to reference so the import stays used

	if name, im := importName(f, "sync"); im != nil {
		if name == "_" || name == "." {
			fail(fset, im.Pos(), "unsupported import form of sync")
		}
		im.Path.Value = strconv.Quote(mcrtPath + "/msync")
		im.Name = ast.NewIdent(name)
		changed = true
		counts["sync"]++
	}
	if name, im := importName(f, "sync/atomic"); im != nil {
		if name == "_" || name == "." {
			fail(fset, im.Pos(), "unsupported import form of sync/atomic")
		}
		im.Path.Value = strconv.Quote(mcrtPath + "/matomic")
		im.Name = ast.NewIdent(name)
		changed = true
		counts["atomic"]++
	}
	timeName, _ := importName(f, "time")
	osName, _ := importName(f, "os")
	logName, _ := importName(f, "log")

	mc := func(fn string, args ...ast.Expr) *ast.CallExpr {
		needMcrt = true
		changed = true
		return &ast.CallExpr{Fun: &ast.SelectorExpr{X: ast.NewIdent("mcrt"), Sel: ast.NewIdent(fn)}, Args: args}
	}
	isPkgCall := func(c *ast.CallExpr, pkg, fn string) bool {
		if pkg == "" {
			return false
		}
		se, ok := c.Fun.(*ast.SelectorExpr)
		if !ok {
			return false
		}
		id, ok := se.X.(*ast.Ident)
		return ok && id.Name == pkg && id.Obj == nil && se.Sel.Name == fn
	}
	goTmp := 0
	simpleArg := func(e ast.Expr) bool {
		ok := true
		ast.Inspect(e, func(n ast.Node) bool {
			switch n.(type) {
			case *ast.CallExpr, *ast.UnaryExpr, *ast.FuncLit:
				ok = false
			}
			return ok
		})
		return ok
	}
	// statement-level rewrites: every statement list is rebuilt, so that scheduling calls can be
	// inserted before (and after) a statement
	covered := map[*ast.UnaryExpr]bool{}
	recvOf := func(e ast.Expr) (ast.Expr, bool) {
		for {
			if p, ok := e.(*ast.ParenExpr); ok {
				e = p.X
				continue
			}
			break
		}
		if u, ok := e.(*ast.UnaryExpr); ok && u.Op == token.ARROW {
			return u.X, true
		}
		return nil, false
	}
	pureChanExpr := func(e ast.Expr) bool {
		// the channel expression is evaluated twice (once for the wait, once for the real operation):
		// allow identifiers, selectors, index expressions and argument-less method calls (ctx.Done())
		ok := true
		ast.Inspect(e, func(n ast.Node) bool {
			switch x := n.(type) {
			case *ast.CallExpr:
				if len(x.Args) != 0 {
					ok = false
				}
			case *ast.FuncLit, *ast.UnaryExpr, *ast.BinaryExpr:
				ok = false
			}
			return ok
		})
		return ok
	}
	// ownRecvs: receive expressions evaluated by the statement itself (not inside nested blocks / closures)
	ownRecvs := func(st ast.Stmt) []*ast.UnaryExpr {
		var out []*ast.UnaryExpr
		var visit func(n ast.Node) bool
		visit = func(n ast.Node) bool {
			switch x := n.(type) {
			case *ast.BlockStmt, *ast.FuncLit, *ast.SelectStmt:
				return false
			case *ast.IfStmt:
				if x.Init != nil {
					ast.Inspect(x.Init, visit)
				}
				ast.Inspect(x.Cond, visit)
				return false // bodies and else-branches are statement lists / statements of their own
			case *ast.ForStmt, *ast.RangeStmt:
				return false
			case *ast.SwitchStmt:
				if x.Init != nil {
					ast.Inspect(x.Init, visit)
				}
				if x.Tag != nil {
					ast.Inspect(x.Tag, visit)
				}
				return false
			case *ast.TypeSwitchStmt:
				return false
			case *ast.UnaryExpr:
				if x.Op == token.ARROW {
					out = append(out, x)
				}
			}
			return true
		}
		ast.Inspect(st, visit)
		return out
	}
	exprStmt := func(e ast.Expr) ast.Stmt { return &ast.ExprStmt{X: e} }
	var rewriteList func(list []ast.Stmt) []ast.Stmt
	rewriteSelect := func(x *ast.SelectStmt) ast.Stmt {
		dirs := ""
		var chs []ast.Expr
		sw := &ast.SwitchStmt{Body: &ast.BlockStmt{}}
		var defClause *ast.CommClause
		idx := 0
		for _, c := range x.Body.List {
			cc := c.(*ast.CommClause)
			if cc.Comm == nil {
				defClause = cc
				continue
			}
			var ch ast.Expr
			var dir byte
			switch cm := cc.Comm.(type) {
			case *ast.SendStmt:
				ch, dir = cm.Chan, 's'
			case *ast.ExprStmt:
				if c2, ok := recvOf(cm.X); ok {
					ch, dir = c2, 'r'
					covered[cm.X.(*ast.UnaryExpr)] = true
				}
			case *ast.AssignStmt:
				if len(cm.Rhs) == 1 {
					if c2, ok := recvOf(cm.Rhs[0]); ok {
						ch, dir = c2, 'r'
						if u, ok := cm.Rhs[0].(*ast.UnaryExpr); ok {
							covered[u] = true
						}
					}
				}
			}
			if ch == nil || !pureChanExpr(ch) {
				fail(fset, cc.Pos(), "select case is not modelled")
				return x
			}
			dirs += string(dir)
			chs = append(chs, ch)
			body := []ast.Stmt{cc.Comm}
			if dir == 's' {
				body = append(body, exprStmt(mc("ChanSendDone", ch)))
			}
			body = append(body, rewriteList(cc.Body)...)
			sw.Body.List = append(sw.Body.List, &ast.CaseClause{List: []ast.Expr{&ast.BasicLit{Kind: token.INT, Value: strconv.Itoa(idx)}}, Body: body})
			idx++
		}
		if defClause != nil {
			dirs += "d"
			sw.Body.List = append(sw.Body.List, &ast.CaseClause{Body: rewriteList(defClause.Body)})
		}
		args := append([]ast.Expr{&ast.BasicLit{Kind: token.STRING, Value: strconv.Quote(dirs)}}, chs...)
		sw.Tag = mc("ChanSelect", args...)
		counts["select"]++
		return sw
	}
	rewriteList = func(list []ast.Stmt) []ast.Stmt {
		var out []ast.Stmt
		for _, st := range list {
			switch x := st.(type) {
			case *ast.LabeledStmt:
				inner := rewriteList([]ast.Stmt{x.Stmt})
				if len(inner) != 1 {
					fail(fset, x.Pos(), "labelled statement needing inserted scheduling calls is not modelled")
				}
				x.Stmt = inner[len(inner)-1]
				out = append(out, inner[:len(inner)-1]...)
				out = append(out, x)
				continue
			case *ast.GoStmt:
				counts["go"]++
				if fl, ok := x.Call.Fun.(*ast.FuncLit); ok && len(x.Call.Args) == 0 {
					out = append(out, exprStmt(mc("Go", fl)))
					continue
				}
				// the function value and the arguments of a go statement are evaluated by the spawning
				// goroutine: non-trivial ones go into temporaries first
				hasRecv := func(e ast.Expr) bool {
					found := false
					ast.Inspect(e, func(n ast.Node) bool {
						if u, ok := n.(*ast.UnaryExpr); ok && u.Op == token.ARROW {
							found = true
						}
						return !found
					})
					return found
				}
				var pre []ast.Stmt
				tmp := func(e ast.Expr) ast.Expr {
					if hasRecv(e) {
						fail(fset, x.Pos(), "go statement whose operands receive from a channel")
					}
					goTmp++
					id := ast.NewIdent(fmt.Sprintf("mcrtGo%d", goTmp))
					pre = append(pre, &ast.AssignStmt{Lhs: []ast.Expr{id}, Tok: token.DEFINE, Rhs: []ast.Expr{e}})
					return id
				}
				if !simpleArg(x.Call.Fun) {
					x.Call.Fun = tmp(x.Call.Fun)
				}
				for i, a := range x.Call.Args {
					if !simpleArg(a) {
						x.Call.Args[i] = tmp(a)
					}
				}
				body := &ast.BlockStmt{List: []ast.Stmt{exprStmt(x.Call)}}
				spawn := exprStmt(mc("Go", &ast.FuncLit{Type: &ast.FuncType{Params: &ast.FieldList{}}, Body: body}))
				if len(pre) > 0 {
					out = append(out, &ast.BlockStmt{List: append(pre, spawn)})
				} else {
					out = append(out, spawn)
				}
				continue
			case *ast.SendStmt:
				if !pureChanExpr(x.Chan) {
					fail(fset, x.Pos(), "send on a channel expression with side effects is not modelled")
				}
				counts["send"]++
				out = append(out, exprStmt(mc("ChanSendWait", x.Chan)), x, exprStmt(mc("ChanSendDone", x.Chan)))
				continue
			case *ast.SelectStmt:
				out = append(out, rewriteSelect(x))
				continue
			case *ast.RangeStmt:
				if isChanName(x.X) {
					// for k := range ch { body }  ->  for { wait; k, ok := <-ch; if !ok { break }; body }
					counts["rangechan"]++
					recv := &ast.UnaryExpr{Op: token.ARROW, X: x.X}
					covered[recv] = true
					okIdent := ast.NewIdent("mcrtOk")
					var lhs []ast.Expr
					if x.Key != nil {
						lhs = []ast.Expr{x.Key, okIdent}
					} else {
						lhs = []ast.Expr{ast.NewIdent("_"), okIdent}
					}
					tok := token.DEFINE
					body := []ast.Stmt{
						exprStmt(mc("ChanRecvWait", x.X)),
						&ast.AssignStmt{Lhs: lhs, Tok: tok, Rhs: []ast.Expr{recv}},
						&ast.IfStmt{Cond: &ast.UnaryExpr{Op: token.NOT, X: okIdent}, Body: &ast.BlockStmt{List: []ast.Stmt{&ast.BranchStmt{Tok: token.BREAK}}}},
					}
					body = append(body, x.Body.List...)
					out = append(out, &ast.ForStmt{Body: &ast.BlockStmt{List: body}})
					continue
				}
			case *ast.ForStmt:
				for _, part := range []ast.Node{x.Init, x.Cond, x.Post} {
					if part == nil || (reflectIsNil(part)) {
						continue
					}
					ast.Inspect(part, func(n ast.Node) bool {
						if u, ok := n.(*ast.UnaryExpr); ok && u.Op == token.ARROW {
							fail(fset, u.Pos(), "channel receive in a for-loop header is not modelled")
						}
						_, isLit := n.(*ast.FuncLit)
						return !isLit
					})
				}
			}
			for _, u := range ownRecvs(st) {
				if covered[u] {
					continue // the receive of a select case: ChanSelect already made sure it cannot block
				}
				if !pureChanExpr(u.X) {
					fail(fset, u.Pos(), "receive from a channel expression with side effects is not modelled")
				}
				covered[u] = true
				counts["recv"]++
				out = append(out, exprStmt(mc("ChanRecvWait", u.X)))
			}
			out = append(out, st)
		}
		return out
	}
	ast.Inspect(f, func(n ast.Node) bool {
		switch x := n.(type) {
		case *ast.BlockStmt:
			x.List = rewriteList(x.List)
		case *ast.CaseClause:
			x.Body = rewriteList(x.Body)
		case *ast.CommClause:
			x.Body = rewriteList(x.Body)
		}
		return true
	})
	// expression-level rewrites
	ast.Inspect(f, func(n ast.Node) bool {
		switch x := n.(type) {
		case *ast.CallExpr:
			if id, ok := x.Fun.(*ast.Ident); ok && id.Name == "close" && id.Obj == nil && len(x.Args) == 1 {
				counts["close"]++
				x.Fun = mc("ChanClose").Fun
			} else if isPkgCall(x, timeName, "Sleep") {
				counts["sleep"]++
				x.Fun = mc("Sleep").Fun
				keep[timeName] = "Sleep"
			} else if isPkgCall(x, osName, "Exit") {
				counts["exit"]++
				x.Fun = mc("Exit").Fun
				keep[osName] = "Exit"
			} else if isPkgCall(x, logName, "Println") {
				counts["logln"]++
				x.Fun = mc("Logln").Fun
				keep[logName] = "Println"
			}
		case *ast.UnaryExpr:
			if x.Op == token.ARROW && !covered[x] {
				fail(fset, x.Pos(), "channel receive in a position the instrumenter does not model")
			}
		case *ast.RangeStmt:
			// cannot type-check; flag only the obvious `range <chan-typed field named done/ch>`
		}
		return true
	})
	if !changed {
		return nil, false
	}
	if needMcrt {
		spec := &ast.ImportSpec{Name: ast.NewIdent("mcrt"), Path: &ast.BasicLit{Kind: token.STRING, Value: strconv.Quote(mcrtPath)}}
		done := false
		for _, d := range f.Decls {
			if gd, ok := d.(*ast.GenDecl); ok && gd.Tok == token.IMPORT {
				if !gd.Lparen.IsValid() {
					gd.Lparen = gd.Pos()
					gd.Rparen = gd.End()
				}
				gd.Specs = append(gd.Specs, spec)
				done = true
				break
			}
		}
		if !done {
			decl := &ast.GenDecl{Tok: token.IMPORT, Specs: []ast.Spec{spec}}
			f.Decls = append([]ast.Decl{decl}, f.Decls...)
		}
		f.Imports = append(f.Imports, spec)
	}
	// Drop comments below the package clause: rewritten nodes carry no
	// positions and the printer could misplace them. Build constraints and
	// the package doc (above the clause) are kept.
	var kept []*ast.CommentGroup
	for _, cg := range f.Comments {
		if cg.End() < f.Package {
			kept = append(kept, cg)
		}
	}
	f.Comments = kept
	var buf bytes.Buffer
	cfg := printer.Config{Mode: printer.UseSpaces | printer.TabIndent, Tabwidth: 8}
	if err := cfg.Fprint(&buf, fset, f); err != nil {
		fmt.Fprintf(os.Stderr, "inst: print %s: %v\n", path, err)
		os.Exit(2)
	}
	var ks []string
	for k := range keep {
		ks = append(ks, k)
	}
	sort.Strings(ks)
	for _, k := range ks {
		fmt.Fprintf(&buf, "\nvar _ = %s.%s\n", k, keep[k])
	}
	return buf.Bytes(), true
}
