package zerolog

import (
	"io"

	"github.com/rs/zerolog/internal/cbor"
)

// Mounted by the verif overlay only: the two exported entry points of
// internal/cbor that the checks need.

// VerifCbor2Json decodes a stream of CBOR events to JSON lines.
func VerifCbor2Json(in io.Reader, out io.Writer) error {
	return cbor.Cbor2JsonManyObjects(in, out)
}

// VerifDecodeIfBinary is cbor.DecodeIfBinaryToBytes.
func VerifDecodeIfBinary(in []byte) []byte {
	return cbor.DecodeIfBinaryToBytes(in)
}
