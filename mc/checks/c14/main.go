// Command c14 decides C14 (MultiLevelWriter fan-out is complete, failures stay contained) by
// enumerating, for each destination shape and event-level vector, EVERY assignment of
// {ok, error, short write} to each (destination, event) and comparing the per-destination call
// logs and the ErrorHandler log with what the statement prescribes.
package main

import (
	"errors"
	"flag"
	"fmt"
	"io"
	"os"
	"strings"

	"github.com/rs/zerolog"

	"verif/drv"
	"verif/seq"
)

type call struct {
	lvl    zerolog.Level
	hasLvl bool
	data   string
}

// dest is a fake destination with a scripted outcome per call.
type dest struct {
	id      int
	script  []int // outcome of the k-th call that reaches it: 0 ok, 1 error, 2 short
	calls   []call
	errs    []error
	corrupt bool
}

func (d *dest) outcome(p []byte) (int, error) {
	k := len(d.calls) - 1
	o := 0
	if k < len(d.script) {
		o = d.script[k]
	}
	switch o {
	case 1:
		// an error, whatever count comes with it: none, the full length (a sync that failed after the write),
		// or half - by destination and call
		switch (d.id + k) % 3 {
		case 0:
			return 0, d.errs[k%len(d.errs)]
		case 1:
			return len(p), d.errs[k%len(d.errs)]
		}
		return len(p) / 2, d.errs[k%len(d.errs)]
	case 2:
		// a short write without an error: one byte short, nothing at all, or half - by destination and call
		switch (d.id + k) % 3 {
		case 0:
			return len(p) - 1, nil
		case 1:
			return 0, nil
		}
		return len(p) / 2, nil
	}
	return len(p), nil
}

type plainW struct{ d *dest }

func (w plainW) Write(p []byte) (int, error) {
	w.d.calls = append(w.d.calls, call{data: string(p)})
	return w.d.outcome(p)
}

type levelW struct{ d *dest }

func (w levelW) Write(p []byte) (int, error) {
	w.d.calls = append(w.d.calls, call{data: string(p)})
	return w.d.outcome(p)
}
func (w levelW) WriteLevel(l zerolog.Level, p []byte) (int, error) {
	w.d.calls = append(w.d.calls, call{lvl: l, hasLvl: true, data: string(p)})
	return w.d.outcome(p)
}

// kinds of destination: "W" plain, "L" level writer, "F<level>" filtered level writer
type kind struct {
	name   string
	filter zerolog.Level
	isF    bool
	isL    bool
}

var kinds = map[string]kind{
	"W":  {name: "W"},
	"L":  {name: "L", isL: true},
	"Fd": {name: "Fd", isF: true, isL: true, filter: zerolog.DebugLevel},
	"Fw": {name: "Fw", isF: true, isL: true, filter: zerolog.WarnLevel},
	"Fe": {name: "Fe", isF: true, isL: true, filter: zerolog.ErrorLevel},
}

var evLevels = []zerolog.Level{zerolog.DebugLevel, zerolog.InfoLevel, zerolog.ErrorLevel, zerolog.NoLevel, zerolog.TraceLevel}

// entry selects how an event is started and finished: "" = WithLevel(..).Msg (the main passes); "named" = the named
// level method (Debug/Info/Error/Log/Trace) and Msg / Msgf / Send-with-the-same-bytes in rotation; a PanicLevel entry of
// a level vector is ALWAYS made with lg.Panic() (the only way, short of Fatal, to get an event whose completion runs a
// `done` callback): the panic is recovered here and must have happened, after the write and its failure were handled.
var entry = ""
var emitFails []string

func emit(lg zerolog.Logger, lvl zerolog.Level, i int) {
	pad := strings.Repeat("x", i*3)
	if lvl == zerolog.PanicLevel {
		func() {
			defer func() {
				if rec := recover(); rec == nil {
					emitFails = append(emitFails, fmt.Sprintf("event %d: Panic().Msg returned without panicking", i))
				} else if fmt.Sprint(rec) != "m" {
					emitFails = append(emitFails, fmt.Sprintf("event %d: Panic().Msg panicked with %v, want the message", i, rec))
				}
			}()
			lg.Panic().Int("i", i).Str("pad", pad).Msg("m")
		}()
		return
	}
	if entry == "named" {
		var e *zerolog.Event
		switch lvl {
		case zerolog.DebugLevel:
			e = lg.Debug()
		case zerolog.InfoLevel:
			e = lg.Info()
		case zerolog.ErrorLevel:
			e = lg.Error()
		case zerolog.TraceLevel:
			e = lg.Trace()
		case zerolog.NoLevel:
			e = lg.Log()
		default:
			e = lg.WithLevel(lvl)
		}
		e = e.Int("i", i).Str("pad", pad)
		switch i % 3 {
		case 0:
			e.Msgf("%s", "m")
		case 1:
			e.MsgFunc(func() string { return "m" })
		default:
			e.Msg("m")
		}
		return
	}
	lg.WithLevel(lvl).Int("i", i).Str("pad", pad).Msg("m")
}

// poisonW overwrites the caller's writer list after MultiLevelWriter took it: it must never be called.
type poisonW struct{}

func (poisonW) Write(p []byte) (int, error) {
	panic("a writer the caller put into its own list AFTER MultiLevelWriter returned was called")
}

func main() {
	tierF := flag.String("tier", "", "")
	flag.String("prop", "C14", "")
	flag.Parse()
	tier := drv.Tier(*tierF)
	r := seq.New("C14", tier, "fault_enumeration")
	defer r.CrashGuard()
	defer r.Watch()()
	r.Rule = "one evaluation = one history: a destination shape (1-3 destinations of kinds plain/LevelWriter/FilteredLevelWriter, or a single direct writer), a vector of event levels, and one complete assignment of {ok,error,short write} to every (destination,event); all assignments are enumerated; entry-point passes (named level methods with Msgf/MsgFunc/Msg; Panic() recovered) repeat shapes x 1-2 events x all assignments; distinct = distinct (shape, levels, per-destination call log, ErrorHandler log); non-trivial = at least one injected fault"
	r.Assumptions = []string{"destinations are synchronous fakes; an error outcome returns (0, err), (len, err) or (len/2, err) in rotation, a short write returns (len-1, nil), (0, nil) or (len/2, nil) in rotation", "events: 4 levels {debug, info, error, nolevel}, up to 3 (quick) / 4 (thorough) events per history"}

	type shape []string
	shapes2 := []shape{}
	all := []string{"W", "L", "Fd", "Fw", "Fe"}
	for _, a := range all {
		shapes2 = append(shapes2, shape{a})
	}
	for _, a := range all {
		for _, b := range all {
			shapes2 = append(shapes2, shape{a, b})
		}
	}
	shapes3 := []shape{{"W", "L", "Fw"}, {"Fe", "W", "L"}, {"L", "Fw", "W"}, {"Fw", "Fe", "Fd"}, {"W", "W", "W"}, {"L", "L", "Fe"}}
	if tier == "thorough" {
		shapes3 = nil
		for _, a := range all {
			for _, b := range all {
				for _, c := range all {
					shapes3 = append(shapes3, shape{a, b, c})
				}
			}
		}
	}
	var handlerLog []error
	handler := func(err error) { handlerLog = append(handlerLog, err) }
	zerolog.ErrorHandler = handler
	noHandler := false // pass without any ErrorHandler: failures go to stderr, everything else must hold all the same

	composition := ""
	run := func(sh shape, lv []zerolog.Level, direct bool) {
		D, E := len(sh), len(lv)
		n := 1
		for i := 0; i < D*E; i++ {
			n *= 3
		}
		// reference bytes
		var refLines []string
		{
			var sb strings.Builder
			lg := zerolog.New(&sb)
			for i, l := range lv {
				sb.Reset()
				emit(lg, l, i)
				refLines = append(refLines, sb.String())
			}
		}
		for a := 0; a < n; a++ {
			// decode assignment: outcome[d][e]
			out := make([][]int, D)
			x := a
			for d := 0; d < D; d++ {
				out[d] = make([]int, E)
				for e := 0; e < E; e++ {
					out[d][e] = x % 3
					x /= 3
				}
			}
			// build destinations; a filtered destination only sees events >= its level, so its script is
			// indexed by the events that reach it
			dests := make([]*dest, D)
			var ws []io.Writer
			reach := make([][]int, D) // events reaching destination d
			for d := 0; d < D; d++ {
				k := kinds[sh[d]]
				dd := &dest{id: d}
				for e := 0; e < E; e++ {
					if !k.isF || lv[e] >= k.filter {
						reach[d] = append(reach[d], e)
						dd.script = append(dd.script, out[d][e])
						dd.errs = append(dd.errs, fmt.Errorf("dest%d-event%d failed", d, e))
					}
				}
				if len(dd.errs) == 0 {
					dd.errs = []error{errors.New("unused")}
				}
				dests[d] = dd
				switch {
				case k.isF:
					ws = append(ws, &zerolog.FilteredLevelWriter{Writer: levelW{dd}, Level: k.filter})
				case k.isL:
					ws = append(ws, levelW{dd})
				default:
					ws = append(ws, plainW{dd})
				}
			}
			var lg zerolog.Logger
			switch {
			case direct:
				lg = zerolog.New(ws[0])
			case composition == "sync(multi)":
				lg = zerolog.New(zerolog.SyncWriter(zerolog.MultiLevelWriter(ws...)))
			case composition == "multi(sync)":
				var wrapped []io.Writer
				for _, w := range ws {
					wrapped = append(wrapped, zerolog.SyncWriter(w))
				}
				lg = zerolog.New(zerolog.MultiLevelWriter(wrapped...))
			case composition == "plain(multi)":
				// the fan-out behind a writer that knows nothing about levels (ConsoleWriter.Out, log.New, a wrapper
				// struct): events reach it through Write, not WriteLevel
				lg = zerolog.New(struct{ io.Writer }{zerolog.MultiLevelWriter(ws...)})
			case composition == "multi(multi)" && len(ws) >= 2:
				lg = zerolog.New(zerolog.MultiLevelWriter(zerolog.MultiLevelWriter(ws[:1]...), zerolog.MultiLevelWriter(ws[1:]...)))
			default:
				// the list is the caller's (built with spare capacity): afterwards the caller reuses it
				ws = append(make([]io.Writer, 0, len(ws)+2), ws...)
				lg = zerolog.New(zerolog.MultiLevelWriter(ws...))
				for i := range ws {
					ws[i] = poisonW{}
				}
				_ = append(ws, poisonW{})
			}
			handlerLog = handlerLog[:0]
			var perEventHandler [][]error
			panicked := ""
			func() {
				defer func() {
					if rec := recover(); rec != nil {
						panicked = fmt.Sprint(rec)
					}
				}()
				for i, l := range lv {
					before := len(handlerLog)
					emit(lg, l, i)
					perEventHandler = append(perEventHandler, append([]error{}, handlerLog[before:]...))
				}
			}()
			r.Transitions += int64(E)
			// ---- oracle ----
			var fails []string
			if panicked != "" {
				fails = append(fails, "logging call panicked: "+panicked)
			}
			fails = append(fails, emitFails...)
			emitFails = emitFails[:0]
			for d := 0; d < D; d++ {
				k := kinds[sh[d]]
				dd := dests[d]
				if len(dd.calls) != len(reach[d]) {
					fails = append(fails, fmt.Sprintf("destination %d (%s) received %d calls, want %d (events %v)", d, sh[d], len(dd.calls), len(reach[d]), reach[d]))
					continue
				}
				for j, e := range reach[d] {
					c := dd.calls[j]
					if c.data != refLines[e] {
						fails = append(fails, fmt.Sprintf("destination %d call %d: bytes %q, want event %d %q", d, j, c.data, e, refLines[e]))
					}
					if k.isL && (!c.hasLvl || c.lvl != lv[e]) {
						fails = append(fails, fmt.Sprintf("destination %d call %d: level %v (hasLevel=%v), want %v", d, j, c.lvl, c.hasLvl, lv[e]))
					}
				}
			}
			for e := 0; e < E && e < len(perEventHandler) && !noHandler; e++ {
				var want error
				for d := 0; d < D && want == nil; d++ {
					k := kinds[sh[d]]
					if k.isF && lv[e] < k.filter {
						continue
					}
					switch out[d][e] {
					case 1:
						// index of e within reach[d]
						for j, ee := range reach[d] {
							if ee == e {
								want = dests[d].errs[j]
							}
						}
					case 2:
						if !direct {
							want = io.ErrShortWrite
						}
					}
				}
				got := perEventHandler[e]
				switch {
				case want == nil && len(got) != 0:
					fails = append(fails, fmt.Sprintf("event %d: ErrorHandler called with %v although no destination failed", e, got))
				case want != nil && len(got) != 1:
					fails = append(fails, fmt.Sprintf("event %d: ErrorHandler called %d times, want exactly once with %v", e, len(got), want))
				case want != nil && got[0] != want:
					fails = append(fails, fmt.Sprintf("event %d: ErrorHandler got %q, want the first failing destination's %q", e, got[0], want))
				}
			}
			faults := 0
			var lg2 strings.Builder
			for d := 0; d < D; d++ {
				for e := 0; e < E; e++ {
					if out[d][e] != 0 {
						faults++
					}
				}
				fmt.Fprintf(&lg2, "%d:%d;", d, len(dests[d].calls))
			}
			mode := "multi"
			if direct {
				mode = "direct"
			}
			if composition != "" && !direct {
				mode = composition
			}
			if noHandler {
				mode += "/no-handler"
			}
			if entry != "" {
				mode += "/entry=" + entry
			}
			r.Eval(fmt.Sprint(mode, sh, lv, out, lg2.String(), len(handlerLog)), faults > 0)
			if len(fails) > 0 {
				r.Violation("", fmt.Sprint(mode, sh, fails[0][:min(len(fails[0]), 40)]), fmt.Sprintf("%s shape=%v levels=%v outcomes(dest x event; 0 ok,1 error,2 short)=%v: %s", mode, sh, lv, out, strings.Join(fails, "; ")),
					map[string]interface{}{"mode": mode, "shape": sh, "levels": fmt.Sprint(lv), "outcomes": out})
			}
			if a == n/2+1 && len(r.Samples) < 8 && (D > 1 || direct) {
				r.Sample(fmt.Sprintf("%s shape=%v levels=%v outcomes=%v -> handler=%v", mode, sh, lv, out, perEventHandler))
			}
		}
	}
	levelVecs := func(E int, allOf bool) [][]zerolog.Level {
		var out [][]zerolog.Level
		n := 1
		for i := 0; i < E; i++ {
			n *= len(evLevels)
		}
		for a := 0; a < n; a++ {
			v := make([]zerolog.Level, E)
			x := a
			for i := range v {
				v[i] = evLevels[x%len(evLevels)]
				x /= len(evLevels)
			}
			out = append(out, v)
		}
		if !allOf && len(out) > 6 {
			sel := [][]zerolog.Level{}
			for i := 0; i < len(out); i += len(out)/6 + 1 {
				sel = append(sel, out[i])
			}
			return sel
		}
		return out
	}
	thorough := tier == "thorough"
	for _, sh := range shapes2 {
		maxE := 3
		if thorough && len(sh) <= 2 {
			maxE = 4
		}
		for E := 1; E <= maxE; E++ {
			for _, lv := range levelVecs(E, E <= 2 || len(sh) == 1) {
				run(sh, lv, false)
				if len(sh) == 1 {
					run(sh, lv, true)
				}
			}
		}
	}
	// entry points: the named level methods with Msgf / MsgFunc / Msg, and Panic() - whose completion callback must not
	// get in the way of reporting the failed write (wave 21: `done` moved before the error handling)
	for _, en := range []string{"named", "panic"} {
		entry = en
		saved := evLevels
		if en == "panic" {
			evLevels = []zerolog.Level{zerolog.PanicLevel, zerolog.InfoLevel}
		}
		for _, sh := range shapes2 {
			for E := 1; E <= 2; E++ {
				for _, lv := range levelVecs(E, true) {
					run(sh, lv, false)
					if len(sh) == 1 {
						run(sh, lv, true)
					}
				}
			}
		}
		evLevels = saved
	}
	entry = ""
	for _, comp := range []string{"sync(multi)", "multi(sync)", "multi(multi)"} {
		composition = comp
		for _, sh := range shapes2 {
			for E := 1; E <= 2; E++ {
				for _, lv := range levelVecs(E, true) {
					run(sh, lv, false)
				}
			}
		}
	}
	// without an ErrorHandler (the library then reports on stderr): the calls return, every destination still gets
	// every event it should, in order, with identical bytes
	if devnull, err := os.OpenFile(os.DevNull, os.O_WRONLY, 0); err == nil {
		realStderr := os.Stderr
		os.Stderr, zerolog.ErrorHandler, noHandler = devnull, nil, true
		for _, sh := range shapes2 {
			for E := 1; E <= 2; E++ {
				for _, lv := range levelVecs(E, E == 1) {
					run(sh, lv, false)
				}
			}
		}
		os.Stderr, zerolog.ErrorHandler, noHandler = realStderr, handler, false
		devnull.Close()
	}
	composition = "plain(multi)"
	for _, sh := range []shape{{"W"}, {"W", "W"}, {"W", "W", "W"}} {
		for E := 1; E <= 3; E++ {
			if len(sh) == 3 && E == 3 && !thorough {
				continue
			}
			for _, lv := range levelVecs(E, E <= 2) {
				run(sh, lv, false)
			}
		}
	}
	composition = ""
	for _, sh := range shapes3 {
		for _, lv := range levelVecs(2, true) {
			run(sh, lv, false)
		}
		vecs := levelVecs(3, false)
		if !thorough {
			vecs = vecs[:2]
		}
		for _, lv := range vecs {
			run(sh, lv, false)
		}
	}
	if thorough {
		for _, sh := range shapes3[:8] {
			run(sh, []zerolog.Level{zerolog.DebugLevel, zerolog.ErrorLevel, zerolog.InfoLevel, zerolog.NoLevel}, false)
		}
	}
	r.Exit()
}
