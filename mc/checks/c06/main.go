// Command c06 decides C06 (concurrent logging: one intact Write per event, independent of the schedule)
// by exploring every interleaving (up to a preemption bound, or all of them with the state cache) of G
// threads logging through one logger, its children or the global logger, over the overlay-instrumented
// zerolog: scheduling points at every sync.Pool Get/Put, every atomic of globals.go, every mutex
// operation, and inside the harness writer on entry and before returning.
// A separate free-running pass of the same bodies under the Go race detector covers unsynchronised accesses.
package main

import (
	"bytes"
	"errors"
	"flag"
	"fmt"
	"hash/fnv"
	"io"
	"os"
	"os/exec"
	"sort"
	"strings"
	"sync"
	"time"

	"github.com/rs/zerolog"
	zlog "github.com/rs/zerolog/log"
	"github.com/rs/zerolog/mcrt"

	"verif/drv"
	"verif/explore"
)

type obj struct{ id int }

func (o *obj) MarshalZerologObject(e *zerolog.Event) {
	e.Int("id", o.id).Dict("inner", zerolog.Dict().Str("x", "y"))
}

// userArr is a LogArrayMarshaler that is not a *zerolog.Array (Event.Array then uses a pooled scratch array).
type userArr struct{ t, i int }

func (u userArr) MarshalZerologArray(a *zerolog.Array) { a.Int(u.t).Str("ua").Int(u.i) }

// errObj is an error that renders itself as an object (Err / Array.Err then borrow a scratch event).
type errObj struct{ n int }

func (e errObj) Error() string                          { return fmt.Sprintf("errObj%d", e.n) }
func (e errObj) MarshalZerologObject(ev *zerolog.Event) { ev.Int("n", e.n).Str("k", "errobj") }

type addHook struct{}

func (addHook) Run(e *zerolog.Event, l zerolog.Level, m string) { e.Str("hook", "h:"+m) }

// emit logs event #i of thread t of the given kind through lg.
func emit(lg *zerolog.Logger, kind string, t, i int) {
	switch kind {
	case "tiny":
		lg.Info().Int("t", t).Int("i", i).Msg("tiny")
	case "big": // grows the pooled 500-byte buffer
		lg.Warn().Int("t", t).Str("pad", strings.Repeat(string(rune('a'+t)), 700)).Int("i", i).Msg("big")
	case "huge": // above the 64 KiB pooling threshold
		lg.Error().Int("t", t).Str("pad", strings.Repeat(string(rune('A'+t)), 66000)).Int("i", i).Msg("huge")
	case "nested":
		lg.Info().Int("t", t).Dict("d", zerolog.Dict().Int("i", i).Dict("dd", zerolog.Dict().Str("s", "v"))).
			Array("a", zerolog.Arr().Int(t).Object(&obj{i}).Dict(zerolog.Dict().Int("q", t))).Object("o", &obj{t}).Msg("nested")
	case "marsh": // a user LogArrayMarshaler, an Errs and an Err of an object marshaler: the pooled scratch paths
		lg.Info().Int("t", t).Array("m", userArr{t, i}).Errs("es", []error{fmt.Errorf("e%d", i), nil}).Msg("marsh")
	case "scratch": // every path that borrows a pooled scratch event or array while the event is being built
		lg.Error().Int("t", t).Array("a", zerolog.Arr().Err(errObj{t}).Object(&obj{i}).Err(fmt.Errorf("p%d", i)).Dict(zerolog.Dict().Array("in", zerolog.Arr().Int(i)))).
			Errs("es", []error{errObj{i}, nil, fmt.Errorf("q%d", t)}).EmbedObject(&obj{t + 10}).Err(errObj{t + 20}).
			Func(func(e *zerolog.Event) { e.Dict("fd", zerolog.Dict().Int("f", i)) }).Interface("if", map[string]int{"t": t}).Stringer("st", nil).Msg("scratch")
	case "stackerr": // an error with the stack flag set on the event (a stack marshaler is installed process-wide)
		lg.Error().Stack().Err(fmt.Errorf("se%d", i)).Int("t", t).Msg("stackerr")
	case "err": // an error WITHOUT the stack flag: no stack field, whatever the pooled event carried before
		lg.Error().Err(fmt.Errorf("pe%d", i)).Dict("d", zerolog.Dict().Err(fmt.Errorf("de%d", t))).Int("t", t).Msg("err")
	case "drop": // discarded by discardHook (loggers without it write it)
		lg.Info().Int("t", t).Int("i", i).Msg("drop")
	case "fields":
		// key names (and their number) differ between goroutines: key scratch shared between two overlapping Fields
		// calls shows as foreign or repeated keys; the marshaler value puts scheduling points inside the key loop
		m := map[string]interface{}{"t": t, "e": fmt.Errorf("err%d", i), "o": &obj{t}, fmt.Sprintf("z%d", t): i}
		for k := 0; k < t; k++ {
			m[fmt.Sprintf("a%d_%d", t, k)] = &obj{k}
		}
		lg.Info().Fields(m).Msg("fields")
	default:
		panic("unknown kind " + kind)
	}
}

// scenario name: <logger>/<writer>/<thread kinds ;-separated, events ,-separated>
//
//	logger: shared | children | global | sharedctx (one logger WITH context fields for all goroutines) | hooked | discarding (a hook discards the "drop" events) | derived (children built by the goroutines themselves)
//	writer: plain | sync | console
type params struct {
	logger, writer string
	threads        [][]string
}

func parse(name string) (params, bool) {
	parts := strings.Split(name, "/")
	if len(parts) != 3 {
		return params{}, false
	}
	p := params{logger: parts[0], writer: parts[1]}
	for _, t := range strings.Split(parts[2], ";") {
		p.threads = append(p.threads, strings.Split(t, ","))
	}
	return p, true
}

type call struct {
	data  string
	level zerolog.Level
}

type recW struct {
	in     *inst
	yield  bool
	active int
}

func hash(b []byte) uint64 { h := fnv.New64a(); h.Write(b); return h.Sum64() }

func (w *recW) Write(p []byte) (int, error) {
	in := w.in
	if in.p.writer == "consolefail" && !in.failedOnce {
		// the first line to arrive is rejected (an error after half of it): that event is lost, every other
		// event must arrive exactly as its chain renders it alone
		in.failedOnce = true
		in.mon = in.mon*1099511628211 ^ 99
		return len(p) / 2, errors.New("destination failed")
	}
	if w.active > 0 {
		in.overlap = true
	}
	w.active++
	entry := string(p)
	in.mon = in.mon*1099511628211 ^ hash(p)
	if w.yield {
		mcrt.Point("w.enter")
	}
	in.calls = append(in.calls, entry)
	if w.yield {
		mcrt.Point("w.exit")
	}
	if string(p) != entry {
		in.mutated = append(in.mutated, fmt.Sprintf("%.80q became %.80q while Write was running", entry, string(p)))
	}
	w.active--
	in.mon = in.mon*1099511628211 ^ 7
	if in.p.writer == "shortcount" {
		// a destination that reports fewer bytes than it was handed, without an error: still one Write per event
		return len(p) / 2, nil
	}
	return len(p), nil
}

type inst struct {
	p          params
	calls      []string
	overlap    bool
	failedOnce bool
	mutated    []string
	done       []bool
	mon        uint64
	expected   []string
}

var expCache = map[string][]string{}

// aloneMulti: scenarios in which a single event, emitted alone, arrived in more than one Write call.
var aloneMulti = map[string]string{}
var expMu sync.Mutex

// discardHook discards the events whose message is "drop" (the hooks after it still run on the event).
type discardHook struct{}

func (discardHook) Run(e *zerolog.Event, l zerolog.Level, m string) {
	if m == "drop" {
		e.Discard()
	}
}

// levelW makes a destination a zerolog.LevelWriter.
type levelW struct{ io.Writer }

func (l levelW) WriteLevel(_ zerolog.Level, p []byte) (int, error) { return l.Writer.Write(p) }

// tagHook marks the events of one derived child.
type tagHook struct{ t int }

func (h tagHook) Run(e *zerolog.Event, l zerolog.Level, m string) { e.Int("hook", h.t) }

// buildLoggers returns the per-thread loggers. In the "derived" mode the children are NOT built up front:
// derive(i) is called by goroutine i itself (a child per request), from a parent whose hooks were added
// one at a time and whose context is non-empty - so that anything a derivation shares with its parent or
// its siblings (a slice's spare capacity, a context buffer) is written by one goroutine while another
// one logs.
func buildLoggers(p params, w io.Writer) (lgs []zerolog.Logger, derive func(i int) zerolog.Logger) {
	dst := w
	switch p.writer {
	case "sync":
		dst = zerolog.SyncWriter(w)
	case "syncsync": // one destination behind SyncWriter, and (for every second goroutine, see below) behind another one around it
		dst = zerolog.SyncWriter(w)
	case "synclevel": // the wrapped destination is a LevelWriter: events reach it through WriteLevel
		dst = zerolog.SyncWriter(levelW{w})
	case "console", "consolefail": // (consolefail: the destination rejects the first line it is handed - see recW)
		dst = zerolog.ConsoleWriter{Out: w, NoColor: true, PartsExclude: []string{"time"}}
	}
	if p.writer == "consoleorder" {
		// built by the constructor and with a field order: whatever the constructor prepares is shared by the
		// value copies every Write makes (a lazily filled index would be written by the first events of all goroutines)
		dst = zerolog.NewConsoleWriter(func(cw *zerolog.ConsoleWriter) {
			cw.Out, cw.NoColor, cw.PartsExclude = w, true, []string{"time"}
			cw.FieldsOrder = []string{"z", "n", "k", "g", "svc", "child", "a"}
		})
	}
	root := zerolog.New(dst)
	if p.logger == "derived" {
		root = root.Hook(addHook{}).Hook(tagHook{-1}).Hook(tagHook{-2}).With().Str("parent", "ctx").Logger()
	}
	rootCtx := root.With().Str("svc", "api").Int("n", 7).Logger()
	derive = func(i int) zerolog.Logger {
		switch p.logger {
		case "sharedctx": // ONE logger with context fields, used by every goroutine (its context bytes are read by all)
			return rootCtx
		case "children":
			return root.With().Int("child", i).Logger()
		case "hooked":
			return root.Hook(addHook{}).With().Str("c", "ctx").Logger()
		case "discarding":
			return root.Hook(discardHook{}).Hook(addHook{}).With().Int("child", i).Logger()
		case "derived":
			return root.Hook(tagHook{i}).With().Int("child", i).Str("pad", strings.Repeat(string(rune('a'+i)), 20)).Logger().Level(zerolog.DebugLevel)
		case "global":
			zlog.Logger = root
			return zlog.Logger
		}
		return root
	}
	n := len(p.threads)
	lgs = make([]zerolog.Logger, n)
	if p.writer == "syncsync" {
		// every second goroutine reaches the destination through SyncWriter(SyncWriter(w)): wrapping what is wrapped
		// already must still serialise against the users of the inner wrapper
		inner := derive
		outer := zerolog.SyncWriter(dst)
		derive = func(i int) zerolog.Logger {
			lg := inner(i)
			if i%2 == 1 {
				lg = lg.Output(outer)
			}
			return lg
		}
	}
	if p.logger != "derived" {
		for i := range lgs {
			lgs[i] = derive(i)
		}
	}
	return lgs, derive
}

// expectedWrites: what each chain writes when run alone (sequentially, outside the scheduler).
func expectedWrites(p params, name string) []string {
	expMu.Lock()
	defer expMu.Unlock()
	if e, ok := expCache[name]; ok {
		return e
	}
	var all []string
	for t, kinds := range p.threads {
		for i, k := range kinds {
			in := &inst{p: p, failedOnce: true} // (alone = with a destination that accepts everything)
			w := &recW{in: in}
			lgs, derive := buildLoggers(p, w)
			if p.logger == "derived" {
				lgs[t] = derive(t)
			}
			if p.logger == "global" {
				emitGlobal(k, t, i)
			} else {
				emit(&lgs[t], k, t, i)
			}
			if len(in.calls) > 1 {
				// "exactly one Write/WriteLevel call per emitted event" holds for the chain run alone to begin with
				aloneMulti[name] = fmt.Sprintf("one %q event emitted alone reached the destination in %d Write calls, want one: %.200q", k, len(in.calls), in.calls)
			}
			all = append(all, in.calls...)
		}
	}
	sort.Strings(all)
	expCache[name] = all
	return all
}

func emitGlobal(kind string, t, i int) {
	l := zlog.Logger
	emit(&l, kind, t, i)
}

func (in *inst) Body() {
	w := &recW{in: in, yield: true}
	lgs, derive := buildLoggers(in.p, w)
	in.done = make([]bool, len(in.p.threads))
	for t := range in.p.threads {
		t := t
		mcrt.GoNamed(fmt.Sprintf("g%d", t), false, func() {
			if in.p.logger == "derived" {
				lgs[t] = derive(t)
				mcrt.Point("derived")
			}
			for i, k := range in.p.threads[t] {
				if in.p.logger == "global" {
					emitGlobal(k, t, i)
				} else {
					emit(&lgs[t], k, t, i)
				}
			}
			in.done[t] = true
			in.mon = in.mon*1099511628211 ^ uint64(t+100)
		})
	}
	mcrt.Block("join", nil, func() bool {
		for _, d := range in.done {
			if !d {
				return false
			}
		}
		return true
	})
}

func (in *inst) Digest() string {
	h := fnv.New64a()
	for _, c := range in.calls {
		h.Write([]byte(c))
	}
	return fmt.Sprintf("%d writes, order hash %x, overlap=%v mutated=%d", len(in.calls), h.Sum64()&0xffffff, in.overlap, len(in.mutated))
}

func (in *inst) ExtraKey() uint64 { return in.mon }

func (in *inst) Check(res *mcrt.Result) []explore.Violation {
	var vs []explore.Violation
	add := func(f string, a ...interface{}) {
		vs = append(vs, explore.Violation{Prop: "C06", Msg: fmt.Sprintf(f, a...)})
	}
	for _, p := range res.Panics {
		add("panic in a logging goroutine: %s", firstLine(p))
	}
	if res.Deadlock {
		add("deadlock: blocked on %v", res.BlockedOn)
	}
	if res.Capped {
		add("execution did not finish within the step limit (%d steps): a logging goroutine spins or never terminates", res.Steps)
		return vs
	}
	for _, m := range in.mutated {
		add("the slice handed to the writer changed before Write returned: %s", m)
	}
	expMu.Lock()
	for _, m := range aloneMulti {
		add("%s", m)
	}
	expMu.Unlock()
	if in.overlap && strings.HasPrefix(in.p.writer, "sync") {
		add("a writer wrapped in SyncWriter saw two overlapping calls")
	}
	got := append([]string{}, in.calls...)
	sort.Strings(got)
	want := in.expected
	if in.p.writer == "consolefail" {
		// exactly one event (the one that met the failing write) is missing; the rest must be among the expected lines
		if len(got) != len(want)-1 {
			add("%d lines reached the destination, want %d (all events but the rejected one)", len(got), len(want)-1)
			return vs
		}
		rest := append([]string{}, want...)
		for _, g := range got {
			k := sort.SearchStrings(rest, g)
			if k >= len(rest) || rest[k] != g {
				add("after one rejected write an event differs from what its call chain produces alone: got %.160q", g)
				return vs
			}
			rest = append(rest[:k], rest[k+1:]...)
		}
		return vs
	}
	if len(got) != len(want) {
		add("%d Write calls for %d events", len(got), len(want))
		return vs
	}
	for i := range got {
		if got[i] != want[i] {
			add("an event differs from what its call chain produces alone: got %.120q, want %.120q", got[i], want[i])
			break
		}
	}
	return vs
}

func firstLine(s string) string {
	if i := strings.IndexByte(s, '\n'); i >= 0 {
		return s[:i]
	}
	return s
}

func factory(name string) *explore.Scenario {
	p, ok := parse(name)
	if !ok {
		return nil
	}
	exp := expectedWrites(p, name)
	return &explore.Scenario{Name: name, WriterProgress: true, New: func() explore.Instance { return &inst{p: p, expected: exp} },
		Setup: func() { zerolog.SetGlobalLevel(zerolog.TraceLevel) }}
}

func plans(tier string) []drv.Plan {
	var ps []drv.Plan
	add := func(name string, bound int) {
		ps = append(ps, drv.Plan{Scenario: name, Bound: bound, Cache: true, Single: true, MaxSteps: 20000})
	}
	b2, b3 := 4, -1
	if tier == "thorough" {
		b2, b3 = -1, -1
	}
	add("shared/plain/tiny,tiny;tiny,tiny", b3)
	add("shared/plain/tiny,big;big,tiny", b3)
	if tier == "thorough" {
		add("shared/plain/nested;nested", 6)
	} else {
		add("shared/plain/nested;nested", 4)
	}
	add("shared/plain/fields;nested", b2)
	add("children/plain/tiny,nested;big", b2)
	add("hooked/plain/tiny,tiny;nested", b2)
	add("global/plain/tiny;tiny;tiny", b2)
	add("derived/plain/tiny,tiny;tiny", b2)
	add("sharedctx/plain/tiny,nested;tiny", b2)
	add("sharedctx/sync/fields;tiny,tiny", b2)
	add("shared/plain/fields;fields", b2)
	add("children/plain/fields;fields,tiny", b2)
	add("shared/plain/marsh,nested;nested", b2)
	add("children/plain/marsh;marsh,nested", b2)
	add("shared/plain/scratch;scratch", 3)
	add("shared/plain/stackerr,err;err", b2)
	add("children/plain/stackerr;err,stackerr", b2)
	add("hooked/plain/scratch,tiny;nested", 3)
	add("discarding/plain/drop,tiny;tiny,drop", b2)
	add("discarding/plain/drop;drop;nested", 3)
	add("derived/plain/nested;tiny;tiny", 3)
	add("shared/sync/tiny,tiny;big", b3)
	add("shared/sync/tiny;tiny;tiny", b2)
	add("shared/syncsync/tiny,tiny;tiny", b3)
	add("children/syncsync/tiny;nested;tiny", b2)
	add("shared/synclevel/tiny,tiny;big", b3)
	add("children/synclevel/tiny,tiny;nested", b2)
	add("shared/console/tiny,nested;tiny", b2)
	add("children/console/big;tiny", b3)
	add("shared/consoleorder/tiny,nested;tiny", b2)
	add("shared/shortcount/tiny,tiny;tiny", b2)
	add("children/shortcount/tiny;nested", b2)
	add("shared/consolefail/tiny,tiny;tiny", b2)
	add("children/consolefail/tiny;nested", b2)
	add("shared/plain/huge;tiny,tiny", 1)
	if tier == "thorough" {
		add("shared/plain/tiny;nested;big", 5)
	} else {
		add("shared/plain/tiny;nested;big", 3)
	}
	if tier == "thorough" {
		add("shared/plain/tiny,tiny;tiny,tiny;tiny", 3)
		add("shared/plain/nested,nested;nested,tiny", 3)
		add("shared/sync/nested;nested;tiny", 3)
		add("shared/plain/tiny;tiny", -1)
		add("shared/sync/tiny;tiny", -1)
		add("shared/plain/nested;tiny", 8)
	}
	return ps
}

func init() {
	// makes the events' stack flag observable (kinds stackerr / err)
	zerolog.ErrorStackMarshaler = func(err error) interface{} { return "STK:" + err.Error() }
}

func main() {
	drv.WorkerMain(factory)
	if os.Getenv("C06_RACEPASS") != "" {
		racePass()
	}
	tierF := flag.String("tier", "", "")
	flag.String("prop", "C06", "")
	flag.Parse()
	tier := drv.Tier(*tierF)
	t0 := time.Now()
	ps := plans(tier)
	budget := 4 * time.Minute
	if tier == "thorough" {
		budget = 25 * time.Minute
	}
	stats, err := drv.ExploreAll(factory, ps, t0.Add(budget))
	if err != nil {
		drv.InfraExit("C06", factory, stats, err, 20000)
	}
	out := drv.Classify("C06", factory, stats, 20000)
	// auxiliary free-running race pass (a different, sampling technique; reported apart)
	raceRuns, races, raceNote := 0, 0, "not run (C06_RACE_BIN unset)"
	if bin := os.Getenv("C06_RACE_BIN"); bin != "" {
		cmd := exec.Command(bin)
		cmd.Env = append(os.Environ(), "C06_RACEPASS=1", "GORACE=halt_on_error=1 exitcode=66")
		var buf bytes.Buffer
		cmd.Stdout, cmd.Stderr = &buf, &buf
		err := cmd.Run()
		raceNote = "ran"
		fmt.Sscanf(lastLine(buf.String()), "racepass runs=%d", &raceRuns)
		if ee, ok := err.(*exec.ExitError); ok && ee.ExitCode() == 66 {
			races = 1
			path := drv.WriteReplay("C06", "race", map[string]interface{}{"property": "C06", "race_report": buf.String()})
			fmt.Printf("VIOLATION property=C06 replay=%s\n  the Go race detector reported a data race in the free-running pass:\n%s\n", path, indent(firstN(buf.String(), 30)))
			out.Violations++
		} else if err != nil {
			fmt.Println("INFRA: race pass:", err, buf.String())
			os.Exit(2)
		}
	}
	var execs, steps, points, states int64
	outcomes := map[string]bool{}
	exhaustive := true
	var caps []string
	var per []map[string]interface{}
	var samples []interface{}
	for _, st := range stats {
		execs += st.Execs
		steps += st.Steps
		points += st.Points
		states += st.States
		for k := range st.Outcomes {
			outcomes[st.Scenario+"|"+k] = true
		}
		if !st.Exhaustive {
			exhaustive = false
			caps = append(caps, st.Scenario+":"+st.CapHit)
		}
		per = append(per, map[string]interface{}{"scenario": st.Scenario, "bound": st.Bound, "executions": st.Execs, "steps": st.Steps, "state_keys": st.States, "pruned": st.Pruned, "distinct_outcomes": len(st.Outcomes), "exhaustive_within_bound": st.Exhaustive})
		for _, s := range st.Samples {
			if len(samples) < 6 {
				samples = append(samples, st.Scenario+": "+s)
			}
		}
		if os.Getenv("VERIF_VERBOSE") != "" {
			fmt.Printf("  %-44s bound=%d execs=%d steps=%d pruned=%d outcomes=%d exh=%v found=%v\n", st.Scenario, st.Bound, st.Execs, st.Steps, st.Pruned, len(st.Outcomes), st.Exhaustive, st.FoundBySig)
		}
	}
	if len(samples) == 0 {
		samples = append(samples, "none")
	}
	ev := &drv.Evidence{PropertyID: "C06", Tier: tier, Level: "model_checking", Coverage: map[string]interface{}{
		"states": states, "transitions": steps, "traces_validated_against_impl": execs, "evaluations": execs, "distinct_nontrivial": len(outcomes),
		"rule":    "one evaluation = one complete interleaving of the logging goroutines over the real (instrumented) zerolog; states = distinct state keys (per-thread observation histories + last writers + writer monitor); distinct = distinct (scenario, order of writes, anomaly flags)",
		"samples": samples, "exhaustive": exhaustive, "caps_hit": caps, "choice_points": points, "scenarios": per,
		"race_pass": map[string]interface{}{"note": raceNote, "runs": raceRuns, "races": races, "technique": "free-running goroutines under the Go race detector; dynamic analysis, not part of the exhaustive claim"},
	}, Assumptions: []string{"sequentially consistent interleavings of hooked operations (Pool Get/Put, atomics, mutexes, writer entry/exit)", "sync.Pool modelled as a LIFO list: the most aggressive reuse", "2-3 goroutines x 1-2 events; preemption bound per scenario"},
		WallS: time.Since(t0).Seconds(), Violations: out.Violations}
	if err := drv.WriteEvidence(ev); err != nil {
		fmt.Println("INFRA:", err)
		os.Exit(2)
	}
	fmt.Printf("C06 %s: scenarios=%d executions=%d steps=%d states=%d outcomes=%d exhaustive=%v race_pass=%s/%d runs/%d races violations=%d wall=%.1fs\n", tier, len(stats), execs, steps, states, len(outcomes), exhaustive, raceNote, raceRuns, races, out.Violations, time.Since(t0).Seconds())
	if out.Violations > 0 {
		os.Exit(1)
	}
}

func lastLine(s string) string {
	s = strings.TrimSpace(s)
	if i := strings.LastIndexByte(s, '\n'); i >= 0 {
		return s[i+1:]
	}
	return s
}

func firstN(s string, n int) string {
	lines := strings.Split(s, "\n")
	if len(lines) > n {
		lines = lines[:n]
	}
	return strings.Join(lines, "\n")
}

func indent(s string) string { return "    " + strings.ReplaceAll(s, "\n", "\n    ") }

// racePass: the same bodies, free-running, under -race (this binary is then built with -race and WITHOUT
// the scheduler rewrite being active: mcrt is passive, every shim is a pass-through).
func racePass() {
	runs := 0
	for _, pl := range plans("quick") {
		p, _ := parse(pl.Scenario)
		if strings.Contains(pl.Scenario, "huge") {
			continue
		}
		for rep := 0; rep < 150; rep++ {
			in := &inst{p: p}
			w := &recW{in: in}
			var mu sync.Mutex
			lw := lockedWriter{w: w, mu: &mu}
			_ = lw
			lgs, derive := buildLoggers(p, &lw)
			var wg sync.WaitGroup
			for t := range p.threads {
				t := t
				wg.Add(1)
				go func() {
					defer wg.Done()
					if p.logger == "derived" {
						lgs[t] = derive(t)
					}
					for i, k := range p.threads[t] {
						if p.logger == "global" {
							emitGlobal(k, t, i)
						} else {
							emit(&lgs[t], k, t, i)
						}
					}
				}()
			}
			wg.Wait()
			runs++
		}
	}
	fmt.Printf("racepass runs=%d\n", runs)
	os.Exit(0)
}

// lockedWriter: the recording writer is not the code under test; serialise it so that only zerolog's own
// accesses can race.
type lockedWriter struct {
	w  *recW
	mu *sync.Mutex
}

func (l *lockedWriter) Write(p []byte) (int, error) {
	l.mu.Lock()
	defer l.mu.Unlock()
	return l.w.Write(p)
}
