// Command cq is Engine Q's driver for C01 (well-formed JSON), C02 (values decode back, same through
// every entry point) and C03 (event layout and hook ordering): bounded-exhaustive enumeration of
// logging programs executed on the real zerolog, checked against jsonstrict and the reference model.
package main

import (
	"encoding/json"
	"errors"
	"flag"
	"fmt"
	"os"
	"strconv"
	"strings"
	"time"
	"unicode/utf8"

	"github.com/rs/zerolog"

	"verif/drv"
	"verif/oracle/jsonstrict"
	"verif/seq"
	"verif/seqx"
)

var tier string

func main() {
	prop := flag.String("prop", "", "C01|C02|C03")
	tierF := flag.String("tier", "", "")
	one := flag.String("program", "", "re-run one program description (replay)")
	flag.Parse()
	_ = one
	tier = drv.Tier(*tierF)
	seqx.PinGlobals()
	switch *prop {
	case "C01":
		runC01()
	case "C02":
		runC02()
	case "C03":
		runC03()
	case "C16":
		runC16()
	case "C08":
		runC08()
	case "C09":
		runC09()
	default:
		fmt.Println("unknown property", *prop)
		os.Exit(2)
	}
}

// checkLine validates one emitted line; returns the parsed object.
func checkLine(line []byte) (*jsonstrict.Node, error) {
	n, err := jsonstrict.ParseLine(line)
	std := json.Valid(line)
	if err == nil && !std {
		fmt.Printf("INFRA: jsonstrict accepts what encoding/json rejects: %q\n", line)
		os.Exit(2)
	}
	if err != nil && std && utf8.Valid(line) && len(line) > 0 && line[len(line)-1] == '\n' && line[0] == '{' {
		// encoding/json tolerates leading/trailing whitespace and raw control bytes are rejected by both;
		// any other disagreement means the oracle itself is wrong
		ok := true
		for _, c := range line[:len(line)-1] {
			if c < 0x20 {
				ok = false
			}
		}
		if ok && line[len(line)-2] != ' ' && line[len(line)-2] != '\n' {
			fmt.Printf("INFRA: encoding/json accepts what jsonstrict rejects (%v): %q\n", err, line)
			os.Exit(2)
		}
	}
	return n, err
}

type enumerator struct {
	r           *seq.Run
	shard, n    int
	idx         int64
	alpha       *seqx.Alphabet
	sites       []seqx.Site
	siteHits    map[string]int64
	methodHits  map[string]int64
	check       func(p seqx.Program, out seqx.Output)
	sampleEvery int64
}

// onlyIndex (VERIF_ONLY_INDEX): re-execute exactly one program of the deterministic enumeration (replay).
var onlyIndex = func() int64 { n, _ := strconv.ParseInt(os.Getenv("VERIF_ONLY_INDEX"), 10, 64); return n }()

var curIndex int64

func (en *enumerator) program(p seqx.Program, site string) {
	en.idx++
	if onlyIndex != 0 {
		if en.idx != onlyIndex {
			return
		}
		out := seqx.Run(p)
		fmt.Printf("program #%d [%s]\n  %s\n  output: %q\n  panic: %q\n", en.idx, site, p, seqx.Render(out.Lines), out.Panic)
		curIndex = en.idx
		en.check(p, out)
		return
	}
	if en.idx%int64(en.n) != int64(en.shard) {
		return
	}
	curIndex = en.idx
	out := seqx.Run(p)
	en.siteHits[site]++
	en.r.Transitions += int64(len(p.Fields) + len(p.Steps) + 1)
	en.check(p, out)
	if en.sampleEvery > 0 && en.idx%en.sampleEvery == 1 {
		en.r.Sample(fmt.Sprintf("[%s] %s => %s", site, p, seqx.Render(out.Lines)))
	}
}

func (en *enumerator) chainAtSites(chain []seqx.Field, settings []int, entries []seqx.Entry, finals []seqx.Final, sites []seqx.Site) {
	for _, s := range sites {
		steps, fields, ok := s.Build(chain)
		if !ok {
			continue
		}
		for _, e := range entries {
			for _, f := range finals {
				en.program(seqx.Program{Settings: settings, Steps: steps, Entry: e, Fields: fields, Final: f}, s.Name)
			}
		}
	}
	for _, f := range chain {
		en.methodHits[f.M]++
	}
}

var (
	entryInfo = seqx.Entry{Kind: "Info"}
	entryLog  = seqx.Entry{Kind: "Log"}
	msgM      = seqx.Final{Kind: "Msg", Text: "m"}
	msgEmpty  = seqx.Final{Kind: "Msg", Text: ""}
	msgNasty  = seqx.Final{Kind: "Msgf", Text: "q\"\n\xff"}
	msgFunc   = seqx.Final{Kind: "MsgFunc", Text: "mf"}
	send      = seqx.Final{Kind: "Send"}
)

type lineCollector struct{ lines *[][]byte }

func (l lineCollector) Write(p []byte) (int, error) {
	*l.lines = append(*l.lines, append([]byte{}, p...))
	return len(p), nil
}

func pickSites(all []seqx.Site, names ...string) []seqx.Site {
	var out []seqx.Site
	for _, s := range all {
		for _, n := range names {
			if s.Name == n {
				out = append(out, s)
			}
		}
	}
	return out
}

func runC01() {
	r := seq.New("C01", tier, "model_checking")
	defer r.CrashGuard()
	r.Rule = "one evaluation = one logging program (global-setting deviations x logger derivation x window of field operations placed at a site x finaliser) executed on the real zerolog; every line handed to the writer is checked by an independent strict RFC 8259 parser (one object, valid UTF-8, no raw control byte, exactly one trailing newline); states = distinct output lines; distinct = distinct output lines; non-trivial = the program contains a container, an empty/nil value or a string needing escapes"
	r.Assumptions = []string{"values from the class alphabet (one representative per emptiness / nil-ness / escaping / width class), not all values", "windows of <= 2 consecutive operations over the full alphabet and <= 3 with a structural middle symbol (quick) / <= 3 full (thorough) at every site; longer chains with <= 1 (quick) / 2 (thorough) deviating symbols", "excluded as the statement allows: invalid RawJSON / json.RawMessage fragments, marshal functions returning invalid JSON, time layouts containing quote, backslash or control characters"}
	if tier == "quick" {
		r.Deadline = time.Now().Add(420 * time.Second)
	} else {
		r.Deadline = time.Now().Add(25 * time.Minute)
	}
	seq.Sharded(r, drv.Workers(), func(r *seq.Run, shard, n int) {
		en := &enumerator{r: r, shard: shard, n: n, alpha: seqx.BuildAlphabet(), sites: seqx.Sites(), siteHits: map[string]int64{}, methodHits: map[string]int64{}, sampleEvery: 400003}
		en.check = func(p seqx.Program, out seqx.Output) {
			nontrivial := false
			for _, f := range p.Fields {
				if len(f.Sub) > 0 || f.Form != "" || f.Val == nil {
					nontrivial = true
				}
			}
			if len(p.Steps) > 0 {
				nontrivial = true
			}
			if out.Panic != "" {
				r.Eval("panic:"+out.Panic, true)
				r.Violation("", "panic/"+firstWords(out.Panic), fmt.Sprintf("program panicked: %s\n  program: %s", out.Panic, p), p.String())
				return
			}
			if len(out.Lines)+len(out.Lines1) != 1 {
				r.Eval(fmt.Sprint("writes:", len(out.Lines)), true)
				r.Violation("", "writes", fmt.Sprintf("%d Write calls for one event\n  program: %s", len(out.Lines)+len(out.Lines1), p), p.String())
				return
			}
			line := out.Lines[0]
			r.Eval(string(line), nontrivial)
			if _, err := checkLine(line); err != nil {
				sig, key := classifyC01(p, line, err)
				r.Violation(sig, key, fmt.Sprintf("not one well-formed JSON object on one line: %v\n  output : %q\n  program: %s", err, line, p), map[string]interface{}{"program": p.String(), "tier": tier, "index": curIndex, "replay": fmt.Sprintf("VERIF_ONLY_INDEX=%d VERIF_WORKERS=1 bin/check C01 %s", curIndex, tier)})
			}
		}
		A, S := en.alpha.Full, en.alpha.Structural
		all := en.sites
		entries := []seqx.Entry{entryInfo}
		finals := []seqx.Final{msgM}
		// (a) single symbols: every site, both entries, all finalisers
		for _, a := range A {
			en.chainAtSites([]seqx.Field{seqx.Rekey(a, 0)}, nil, []seqx.Entry{entryInfo, entryLog}, []seqx.Final{msgM, msgEmpty, msgNasty, msgFunc, send}, all)
		}
		en.chainAtSites(nil, nil, []seqx.Entry{entryInfo, entryLog}, []seqx.Final{msgM, msgEmpty, send}, all)
		// (a') the Print family and a direct Logger.Write, on loggers with every single-symbol context
		for _, txt := range append(append([]string{}, seqx.TextClasses...), "two\nlines\n", "trailing\n") {
			for ai := -1; ai < len(A); ai++ {
				en.idx++
				if en.idx%int64(n) != int64(shard) && onlyIndex == 0 {
					continue
				}
				if onlyIndex != 0 && en.idx != onlyIndex {
					continue
				}
				var lines [][]byte
				w := lineCollector{&lines}
				lg := zerolog.New(w)
				desc := "New(w)"
				if ai >= 0 {
					if !seqx.HasContextForm(A[ai]) {
						continue
					}
					lg = seqx.ApplyContext(lg.With(), seqx.Rekey(A[ai], 0)).Logger()
					desc += fmt.Sprintf(".With().%s.Logger()", seqx.Rekey(A[ai], 0))
				}
				lg.Print(txt)
				lg.Printf("%s|%d", txt, 7)
				lg.Println(txt, txt)
				lg.Write([]byte(txt))
				curIndex = en.idx
				if len(lines) != 4 {
					r.Violation("", "print/writes", fmt.Sprintf("%s: Print, Printf, Println, Write(%q) produced %d writes", desc, txt, len(lines)), desc)
				}
				for _, line := range lines {
					r.Eval(string(line), true)
					if _, err := checkLine(line); err != nil {
						_, key := classifyC01(seqx.Program{}, line, err)
						r.Violation("", "print/"+key, fmt.Sprintf("not one well-formed JSON object on one line: %v\n  output : %q\n  program: %s ; Print/Printf/Println/Write(%q)", err, line, desc, txt), desc)
					}
				}
			}
		}
		// (a'') every string over the byte alphabet (one byte or sequence per escaping / UTF-8 class; all
		// concatenations, so that lead byte + continuation, surrogate halves, truncated sequences and
		// escape + escape all occur) as value, key, message, error text, []byte, Stringer and Strs element
		strLen := 2
		if tier == "thorough" {
			strLen = 3
		}
		strSites := pickSites(all, "event", "context", "array", "dict", "fieldsmap")
		allStrings(seqx.TextAlphabet, strLen, func(s string) {
			if r.TimeUp() {
				return
			}
			en.chainAtSites([]seqx.Field{{M: "Str", Key: "k0", Val: s}}, nil, entries, []seqx.Final{{Kind: "Msg", Text: s}}, strSites)
			en.chainAtSites([]seqx.Field{{M: "Str", Key: s, Val: "v"}}, nil, entries, []seqx.Final{send}, strSites)
			en.chainAtSites([]seqx.Field{{M: "Strs", Key: "k0", Val: []string{"a", s}}, {M: "AnErr", Key: "k1", Val: errors.New(s)}, {M: "Bytes", Key: "k2", Val: []byte(s)}, {M: "Stringer", Key: "k3", Val: seqx.Str(s)}}, nil, entries, []seqx.Final{{Kind: "Msgf", Text: s}}, strSites[:3])
		})
		// (b) all windows of two symbols at every site
		for _, a := range A {
			for _, b := range A {
				en.chainAtSites([]seqx.Field{seqx.Rekey(a, 0), seqx.Rekey(b, 1)}, nil, entries, finals, all)
			}
			if r.TimeUp() {
				break
			}
		}
		// (c) windows of three
		core := pickSites(all, "event", "context", "ctx(pre)+event", "dict", "object(mid)", "embed", "array", "fieldsslice", "hook", "updatecontext", "ctx.embed(mid)", "ctx.fieldsmap")
		if tier == "quick" {
			for _, a := range S {
				for _, b := range S {
					for _, c := range S {
						en.chainAtSites([]seqx.Field{seqx.Rekey(a, 0), seqx.Rekey(b, 1), seqx.Rekey(c, 2)}, nil, entries, []seqx.Final{send}, core)
					}
				}
				if r.TimeUp() {
					break
				}
			}
		} else {
			for _, a := range A {
				for _, b := range S {
					for _, c := range A {
						en.chainAtSites([]seqx.Field{seqx.Rekey(a, 0), seqx.Rekey(b, 1), seqx.Rekey(c, 2)}, nil, entries, []seqx.Final{send}, core)
					}
				}
				if r.TimeUp() {
					break
				}
			}
			for _, a := range S {
				for _, b := range S {
					for _, c := range S {
						en.chainAtSites([]seqx.Field{seqx.Rekey(a, 0), seqx.Rekey(b, 1), seqx.Rekey(c, 2)}, nil, entries, []seqx.Final{send}, all)
					}
				}
				if r.TimeUp() {
					break
				}
			}
		}
		// (d) setting deviations: every single deviation x single symbols at every site, x structural pairs at the core sites
		nset := len(seqx.AllSettings())
		withStack := func(chain []seqx.Field) []seqx.Field { return append([]seqx.Field{{M: "Stack"}}, chain...) }
		for si := 0; si < nset; si++ {
			for _, a := range A {
				en.chainAtSites([]seqx.Field{seqx.Rekey(a, 0)}, []int{si}, entries, finals, all)
				en.chainAtSites([]seqx.Field{seqx.Rekey(a, 0)}, []int{si}, []seqx.Entry{entryLog}, []seqx.Final{send}, core)
				en.chainAtSites(withStack([]seqx.Field{seqx.Rekey(a, 0)}), []int{si}, entries, finals, core)
			}
			for _, a := range S {
				for _, b := range S {
					en.chainAtSites([]seqx.Field{seqx.Rekey(a, 0), seqx.Rekey(b, 1)}, []int{si}, entries, finals, core)
				}
			}
			if r.TimeUp() {
				break
			}
		}
		if tier == "thorough" {
			// two simultaneous deviations x single structural symbols
			for si := 0; si < nset; si++ {
				for sj := si + 1; sj < nset; sj++ {
					for _, a := range S {
						en.chainAtSites(withStack([]seqx.Field{seqx.Rekey(a, 0)}), []int{si, sj}, entries, finals, core)
					}
				}
				if r.TimeUp() {
					break
				}
			}
		}
		// (e) long chains with a bounded number of deviating symbols
		def := seqx.Field{M: "Str", Key: "k", Val: "v"}
		for L := 4; L <= 6; L++ {
			for i := 0; i < L; i++ {
				for _, a := range S {
					chain := make([]seqx.Field, L)
					for k := range chain {
						chain[k] = seqx.Rekey(def, k)
					}
					chain[i] = seqx.Rekey(a, i)
					en.chainAtSites(chain, nil, entries, finals, core)
					if tier == "thorough" {
						for j := i + 1; j < L; j++ {
							for _, b := range S {
								c2 := append([]seqx.Field{}, chain...)
								c2[j] = seqx.Rekey(b, j)
								en.chainAtSites(c2, nil, entries, []seqx.Final{send}, core[:6])
							}
						}
					}
				}
			}
			if r.TimeUp() {
				break
			}
		}
		// (f) forks: two children of one parent, the younger derived (and logging) before the elder logs - what a
		// derivation shares with its parent shows as a spliced line. Parents: none, an empty With(), a timestamp hook
		// only (context = begin marker only), one context field, a 510-byte context; children: every pair of
		// structural symbols as With() fields, plus hook / empty derivations
		{
			parents := [][]seqx.Step{nil, {{Op: "WithEmpty"}}, {{Op: "Timestamp"}}, {{Op: "With", Fields: []seqx.Field{{M: "Str", Key: "p", Val: "v"}}}}, {{Op: "With", Fields: []seqx.Field{{M: "Str", Key: "big", Val: strings.Repeat("B", 510)}}}}}
			var kids []seqx.Step
			for _, a := range S {
				if seqx.HasContextForm(a) {
					kids = append(kids, seqx.Step{Op: "With", Fields: []seqx.Field{seqx.Rekey(a, 0)}})
				}
			}
			kids = append(kids, seqx.Step{Op: "WithEmpty"}, seqx.Step{Op: "Timestamp"}, seqx.Step{Op: "Hook", Hooks: []int{1}}, seqx.Step{Op: "Caller"}, seqx.Step{Op: "Stack"}, seqx.Step{Op: "Level", Level: zerolog.DebugLevel}, seqx.Step{Op: "Sample"},
				seqx.Step{Op: "UpdateReset", Fields: []seqx.Field{{M: "Str", Key: "r", Val: "x"}}}, seqx.Step{Op: "UpdateContext", Fields: []seqx.Field{{M: "Str", Key: "u", Val: "y"}}},
				seqx.Step{Op: "With", Fields: []seqx.Field{{M: "Str", Key: "long", Val: strings.Repeat("L", 40)}, {M: "Int", Key: "n", Val: 1}}})
			for _, par := range parents {
				for _, a := range kids {
					for bi := range kids {
						b := kids[bi]
						en.program(seqx.Program{Steps: append(append([]seqx.Step{}, par...), a), Sibling: &b, Entry: entryInfo, Fields: []seqx.Field{{M: "Str", Key: "f", Val: "x"}}, Final: msgM}, "fork")
					}
				}
			}
		}
		// (g) hooks that log: a hook writing its own event through ANOTHER logger while the first event is being
		// finalised - before or after a discarding hook, between field-adding hooks. Every line on either
		// destination must be well-formed, the discarded event must not appear, the hook's event exactly once
		{
			type hk struct{ kind string }
			orders := [][]string{{"log"}, {"discard", "log"}, {"log", "discard"}, {"add", "discard", "add", "log", "add"}, {"log", "add", "log"}}
			for _, a := range S {
				for oi, order := range orders {
					for _, withCtx := range []bool{false, true} {
						en.idx++
						if (en.idx%int64(n) != int64(shard) && onlyIndex == 0) || (onlyIndex != 0 && en.idx != onlyIndex) {
							continue
						}
						curIndex = en.idx
						var l0, l1 [][]byte
						other := zerolog.New(lineCollector{&l1}).With().Str("o", "x").Logger()
						lg := zerolog.New(lineCollector{&l0})
						if withCtx {
							lg = lg.With().Str("c", "y").Logger()
						}
						discards, logs := 0, 0
						for _, k := range order {
							switch k {
							case "log":
								logs++
								lg = lg.Hook(zerolog.HookFunc(func(e *zerolog.Event, lvl zerolog.Level, m string) {
									other.Warn().Str("from", "hook").Dict("d", zerolog.Dict().Str("m", m)).Msg("logged by a hook")
								}))
							case "discard":
								discards++
								lg = lg.Hook(zerolog.HookFunc(func(e *zerolog.Event, lvl zerolog.Level, m string) { e.Discard() }))
							case "add":
								lg = lg.Hook(zerolog.HookFunc(func(e *zerolog.Event, lvl zerolog.Level, m string) { e.Str("added", "by hook") }))
							}
						}
						desc := fmt.Sprintf("hooks %v (order %d), context=%v, event field %s", order, oi, withCtx, seqx.Rekey(a, 0))
						panicked := ""
						func() {
							defer func() {
								if rec := recover(); rec != nil {
									panicked = fmt.Sprint(rec)
								}
							}()
							seqx.ApplyEvent(lg.Info(), seqx.Rekey(a, 0)).Msg("m")
							// and one more plain event afterwards (what the first left in the pools must not leak into it)
							lg.Error().Str("after", "z").Msg("m2")
						}()
						r.Transitions += 2
						wantOwn := 2
						if discards > 0 {
							wantOwn = 0
						}
						if panicked != "" || len(l0) != wantOwn || len(l1) != 2*logs {
							r.Violation("", "hooklog/writes", fmt.Sprintf("%s: panic=%q; own destination got %d lines (want %d), the hook's destination %d (want %d)", desc, panicked, len(l0), wantOwn, len(l1), 2*logs), desc)
						}
						for _, line := range append(append([][]byte{}, l0...), l1...) {
							r.Eval(string(line), true)
							if _, err := checkLine(line); err != nil {
								_, key := classifyC01(seqx.Program{}, line, err)
								r.Violation("", "hooklog/"+key, fmt.Sprintf("not one well-formed JSON object on one line: %v\n  output : %q\n  program: %s", err, line, desc), desc)
							}
						}
					}
				}
			}
		}
		for k, v := range en.siteHits {
			r.Count("site:"+k, v)
		}
		for k, v := range en.methodHits {
			r.Count("method:"+k, v)
		}
		r.Count("alphabet_full", int64(len(A))/int64(n)+0)
		if shard == 0 {
			r.Extra["alphabet_size"] = len(A)
			r.Extra["structural_alphabet_size"] = len(S)
			r.Extra["sites"] = len(all)
			r.Extra["event_methods_reflected"] = len(seqx.EventMethods())
			if len(en.alpha.Unmapped) > 0 {
				r.Extra["UNMAPPED"] = en.alpha.Unmapped
			}
		}
	})
	r.Exit()
}

func firstWords(s string) string {
	if len(s) > 40 {
		return s[:40]
	}
	return s
}

// classifyC01 names the known-finding signature a failing program matches ("" if none) and a dedup key:
// the parser's complaint plus the shape of the output around the offending offset.
func classifyC01(p seqx.Program, line []byte, err error) (sig, key string) {
	var off int
	fmt.Sscanf(err.Error(), "offset %d:", &off)
	lo, hi := off-6, off+4
	if lo < 0 {
		lo = 0
	}
	if hi > len(line) {
		hi = len(line)
	}
	shape := []byte(string(line[lo:hi]))
	for i, c := range shape {
		switch {
		case c >= 'a' && c <= 'z', c >= 'A' && c <= 'Z':
			shape[i] = 'x'
		case c >= '0' && c <= '9':
			shape[i] = '9'
		}
	}
	msg := err.Error()
	if i := strings.Index(msg, ": "); i >= 0 {
		msg = msg[i+2:]
	}
	return "", fmt.Sprintf("invalid/%s/%q", msg, shape)
}

var _ = zerolog.New
