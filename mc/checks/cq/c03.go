package main

func runC03() {}
