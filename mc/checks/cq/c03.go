package main

import (
	"fmt"
	"strings"
	"time"

	"github.com/rs/zerolog"
	zlog "github.com/rs/zerolog/log"

	"verif/drv"
	"verif/oracle/jsonstrict"
	"verif/seq"
	"verif/seqx"
)

func stepAlphabet(depth int) []seqx.Step {
	k := func(s string) string { return fmt.Sprintf("%s%d", s, depth) }
	return []seqx.Step{
		{Op: "With", Fields: []seqx.Field{{M: "Str", Key: k("c"), Val: "v"}}},
		{Op: "With", Fields: []seqx.Field{{M: "Int", Key: k("i"), Val: depth}, {M: "Dict", Key: k("d"), Sub: []seqx.Field{{M: "Bool", Key: "b", Val: true}}}}},
		{Op: "Hook", Hooks: []int{depth*10 + 1}},
		{Op: "Hook", Hooks: []int{depth*10 + 2, depth*10 + 3}},
		{Op: "HookNone"},
		{Op: "HookDiscard"},
		{Op: "HookCtx"},
		{Op: "HookLevel"},
		{Op: "Timestamp"},
		{Op: "Caller"},
		{Op: "Ctx", CtxID: depth + 1},
		{Op: "Level", Level: zerolog.InfoLevel},
		{Op: "Level", Level: zerolog.TraceLevel},
		{Op: "Output"},
		{Op: "OutputDiscard"},
		{Op: "OutputNil"},
		{Op: "Sample"},
		{Op: "SampleNil"},
		{Op: "UpdateContext", Fields: []seqx.Field{{M: "Str", Key: k("u"), Val: "w"}}},
		{Op: "Stack"},
		{Op: "WithEmpty"},
		{Op: "With", Fields: []seqx.Field{{M: "EmbedObject", Form: "val", Sub: nil}, {M: "Err", Val: fmt.Errorf("ce%d", depth)}}},
		{Op: "Hook", Hooks: []int{depth*10 + 4, depth*10 + 5, depth*10 + 6}},
		{Op: "Reset"},
		{Op: "UpdateReset", Fields: []seqx.Field{{M: "Str", Key: k("r"), Val: "x"}}},
		{Op: "With", Fields: []seqx.Field{{M: "Str", Key: k("big"), Val: strings.Repeat("B", 510)}}},
		{Op: "With", Fields: []seqx.Field{{M: "Object", Key: k("on"), Form: "nil"}, {M: "Stringer", Key: k("sn"), Val: nil}, {M: "Interface", Key: k("in"), Val: nil}, {M: "Strs", Key: k("se"), Val: []string{}}, {M: "Dict", Key: k("de")}}}, // fields whose value is null / empty must not be dropped
		// a context whose FIRST field is an object / embedded object larger than the 500 bytes With() reserves
		{Op: "With", Fields: []seqx.Field{{M: "Object", Key: k("bo"), Form: "val", Sub: []seqx.Field{{M: "Str", Key: "s", Val: strings.Repeat("O", 520)}}}}},
		{Op: "With", Fields: []seqx.Field{{M: "EmbedObject", Form: "val", Sub: []seqx.Field{{M: "Str", Key: k("be"), Val: strings.Repeat("E", 520)}}}, {M: "Array", Key: k("ba"), Form: "arr", Sub: []seqx.Field{{M: "Str", Val: strings.Repeat("A", 520)}}}}},
		{Op: "Level", Level: zerolog.Disabled}, // muted for a while: what is derived meanwhile must still count once re-enabled
		{Op: "HookChain", Fields: []seqx.Field{{M: "Dict", Key: k("hd"), Sub: []seqx.Field{{M: "Int", Key: "n", Val: depth}}}, {M: "Array", Key: k("ha"), Form: "arr", Sub: []seqx.Field{{M: "Str", Val: "x"}}}, {M: "Timestamp"}}},
	}
}

type eventForm struct {
	entry  seqx.Entry
	fields []seqx.Field
	final  seqx.Final
}

func eventForms(full bool) []eventForm {
	entries := []seqx.Entry{{Kind: "Info"}, {Kind: "Debug"}, {Kind: "Log"}, {Kind: "WithLevel", Level: zerolog.WarnLevel}, {Kind: "Err"}, {Kind: "ErrNil"}, {Kind: "Error"}, {Kind: "WithLevel", Level: zerolog.Level(-3)}, {Kind: "WithLevel", Level: zerolog.Level(42)},
		{Kind: "Trace"}, {Kind: "WithLevel", Level: zerolog.FatalLevel}, {Kind: "WithLevel", Level: zerolog.PanicLevel}, {Kind: "WithLevel", Level: zerolog.Disabled}}
	fieldSets := [][]seqx.Field{nil, {{M: "Str", Key: "f1", Val: "x"}}, {{M: "Int", Key: "f1", Val: 1}, {M: "Dict", Key: "f2", Sub: []seqx.Field{{M: "Str", Key: "in", Val: "y"}}}}}
	finals := []seqx.Final{msgM, msgEmpty, {Kind: "Msgf", Text: "fm"}, msgFunc, send, {Kind: "MsgfRaw", Text: "100%% d"}, {Kind: "MsgfArgs", Text: "x"}}
	var out []eventForm
	if full {
		for _, e := range entries {
			for _, fs := range fieldSets {
				for _, f := range finals {
					out = append(out, eventForm{e, fs, f})
				}
			}
		}
		return out
	}
	// reduced: every entry, every field set, every finaliser appears, not the full product
	for i, e := range entries {
		out = append(out, eventForm{e, fieldSets[i%3], finals[i%len(finals)]})
		out = append(out, eventForm{e, fieldSets[(i+1)%3], finals[(i+2)%len(finals)]})
	}
	return out
}

func runC03() {
	r := seq.New("C03", tier, "model_checking")
	defer r.CrashGuard()
	r.Rule = "explicit-state search over logger derivation chains: every sequence of <= D steps from {With(fields), Hook(one/two/none/discarding/GetCtx-reading), Timestamp, Caller, Ctx, Level, Output, Sample, UpdateContext, Stack, empty With} is built on the real zerolog and stepped in lock-step with the reference model (reflogger); from every reached logger a set of event forms (entry x fields x finaliser) is emitted and the received token sequence, the per-hook invocation log and the destination are compared with the model; states = distinct (abstract logger state) reached, transitions = derivation steps + events; non-trivial = the chain contains a hook or a context field"
	r.Assumptions = []string{"derivation depth <= 4 (quick) / 5 (thorough; depth 6 with all but two steps fixed to With(field))", "a hook that runs after a discarding hook may observe the original level or Disabled (the statement leaves it open)", "the value of the caller field is not compared here (C19)"}
	if tier == "quick" {
		r.Deadline = time.Now().Add(300 * time.Second)
	} else {
		r.Deadline = time.Now().Add(25 * time.Minute)
	}
	maxDepth := 4
	if tier == "thorough" {
		maxDepth = 5
	}
	seq.Sharded(r, drv.Workers(), func(r *seq.Run, shard, n int) {
		var idx int64
		states := map[string]bool{}
		fullForms := eventForms(true)
		redForms := eventForms(false)
		var chain []seqx.Step
		var rec func(depth int)
		emit := func(forms []eventForm) {
			for _, ef := range forms {
				idx++
				if idx%int64(n) != int64(shard) {
					continue
				}
				p := seqx.Program{Steps: chain, Entry: ef.entry, Fields: ef.fields, Final: ef.final}
				out := seqx.Run(p)
				r.Transitions += int64(len(chain) + 1)
				checkC03(r, p, out)
				if idx%500009 == 1 {
					r.Sample(fmt.Sprintf("%s => %s", p, seqx.Render(out.Lines)))
				}
			}
		}
		rec = func(depth int) {
			if r.TimeUp() {
				return
			}
			if depth <= 3 {
				emit(fullForms)
			} else {
				emit(redForms)
			}
			if depth == maxDepth {
				return
			}
			for _, s := range stepAlphabet(depth) {
				chain = append(chain, s)
				rec(depth + 1)
				chain = chain[:len(chain)-1]
			}
		}
		rec(0)
		_ = states
		// every single global-setting deviation x chains of <= 2 steps x the reduced event forms
		nset := len(seqx.AllSettings())
		for si := 0; si < nset; si++ {
			var srec func(depth int)
			srec = func(depth int) {
				for _, ef := range redForms {
					idx++
					if idx%int64(n) != int64(shard) {
						continue
					}
					p := seqx.Program{Settings: []int{si}, Steps: append([]seqx.Step{}, chain...), Entry: ef.entry, Fields: ef.fields, Final: ef.final}
					out := seqx.Run(p)
					r.Transitions += int64(len(chain) + 1)
					checkC03(r, p, out)
				}
				if depth == 2 {
					return
				}
				for _, s := range stepAlphabet(depth) {
					chain = append(chain, s)
					srec(depth + 1)
					chain = chain[:len(chain)-1]
				}
			}
			chain = chain[:0]
			srec(0)
			if r.TimeUp() {
				break
			}
		}
		// context sizes around the 500 bytes With() reserves, one byte at a time (a context that exactly fills its
		// buffer is the case where "has a buffer / has room" tests flip), followed by every derivation step
		for L := 440; L <= 520; L++ {
			first := seqx.Step{Op: "With", Fields: []seqx.Field{{M: "Str", Key: "first", Val: strings.Repeat("f", L)}}}
			for _, s2 := range stepAlphabet(1) {
				for _, ef := range redForms[:4] {
					idx++
					if idx%int64(n) != int64(shard) {
						continue
					}
					p := seqx.Program{Steps: []seqx.Step{first, s2}, Entry: ef.entry, Fields: ef.fields, Final: ef.final}
					out := seqx.Run(p)
					r.Transitions += 3
					checkC03(r, p, out)
				}
			}
		}
		// duplicate, then update BOTH: Output (and With) hand out a logger with its own context buffer, so in-place
		// UpdateContext calls on the original and on the duplicate - in either order, with fields of different
		// lengths - must not see each other
		if shard == 0 {
			for _, dup := range []seqx.Step{{Op: "Output"}, {Op: "WithEmpty"}, {Op: "With", Fields: []seqx.Field{{M: "Int", Key: "d", Val: 1}}}} {
				for _, ctxLen := range []int{0, 1, 40, 480} {
					for order := 0; order < 2; order++ {
						var l0, l1 [][]byte
						w := &seqx.World{Log: &seqx.HookLog{}}
						w.Writers = append(w.Writers, lineCollector{&l0}, lineCollector{&l1})
						orig, mo := zerolog.New(w.Writers[0]), seqx.RefLogger{Level: zerolog.TraceLevel}
						if ctxLen > 0 {
							orig, mo = seqx.ApplyStep(w, orig, mo, seqx.Step{Op: "With", Fields: []seqx.Field{{M: "Str", Key: "base", Val: strings.Repeat("b", ctxLen)}}})
						} else {
							orig, mo = seqx.ApplyStep(w, orig, mo, seqx.Step{Op: "WithEmpty"})
						}
						copyL, mc := seqx.ApplyStep(w, orig, mo, dup)
						upd := func(lg *zerolog.Logger, m *seqx.RefLogger, f seqx.Field) {
							lg.UpdateContext(func(c zerolog.Context) zerolog.Context { return seqx.ApplyContext(c, f) })
							m.Ctx = append(m.Ctx, seqx.FieldsExp([]seqx.Field{f})...)
						}
						fo := seqx.Field{M: "Str", Key: "uo", Val: "x"}
						fc := seqx.Field{M: "Str", Key: "uc", Val: "a much longer value than the other one"}
						if order == 0 {
							upd(&orig, &mo, fo)
							upd(&copyL, &mc, fc)
						} else {
							upd(&copyL, &mc, fc)
							upd(&orig, &mo, fo)
						}
						desc := fmt.Sprintf("New(w).With[base %d bytes], duplicate by %s, UpdateContext on both (order %d)", ctxLen, dup.Op, order)
						for i, pair := range []struct {
							lg *zerolog.Logger
							m  seqx.RefLogger
						}{{&orig, mo}, {&copyL, mc}} {
							l0, l1 = nil, nil
							pair.lg.Info().Msg("m")
							ex := seqx.ExpectEvent(pair.m, seqx.Entry{Kind: "Info"}, nil, msgM)
							lines := append(append([][]byte{}, l0...), l1...)
							r.Eval(fmt.Sprint(desc, i, lines), true)
							r.Transitions++
							if len(lines) != 1 {
								r.Violation("", "dup-update/writes", fmt.Sprintf("%s: logger %d wrote %d lines", desc, i, len(lines)), desc)
								continue
							}
							root, err := jsonstrict.ParseLine(lines[0])
							if err == nil {
								err = seqx.MatchFields(root, ex.Fields)
							}
							if err != nil {
								r.Violation("", "dup-update/"+dup.Op, fmt.Sprintf("%s: logger %d (0 = original, 1 = duplicate) emits %q: %v", desc, i, lines[0], err), desc)
							}
						}
					}
				}
			}
		}
		// the package-level helpers of zerolog/log must derive exactly what the methods derive
		if shard == 0 {
			logHelpers(r)
			// the documented defaults the reference model reads from the library's variables
			for name, ok := range map[string]bool{
				`LevelFieldName="level"`: zerolog.LevelFieldName == "level", `MessageFieldName="message"`: zerolog.MessageFieldName == "message",
				`TimestampFieldName="time"`: zerolog.TimestampFieldName == "time", `ErrorFieldName="error"`: zerolog.ErrorFieldName == "error",
				`CallerFieldName="caller"`: zerolog.CallerFieldName == "caller", `ErrorStackFieldName="stack"`: zerolog.ErrorStackFieldName == "stack",
				`TimeFieldFormat=RFC3339`: zerolog.TimeFieldFormat == time.RFC3339, `DurationFieldUnit=ms`: zerolog.DurationFieldUnit == time.Millisecond,
				`DurationFieldInteger=false`: !zerolog.DurationFieldInteger, `FloatingPointPrecision=-1`: zerolog.FloatingPointPrecision == -1,
				`CallerSkipFrameCount=2`: zerolog.CallerSkipFrameCount == 2, `ErrorStackMarshaler=nil`: zerolog.ErrorStackMarshaler == nil,
			} {
				r.Eval("default "+name, true)
				if !ok {
					r.Violation("", "defaults/"+name, "documented default does not hold: "+name, name)
				}
			}
		}
		// forks: from every chain of <= 2 steps (3 in thorough), two children of the same parent by every
		// ordered pair of steps; the second child is created (and logs) before the first one logs
		forkDepth := 2
		if tier == "thorough" {
			forkDepth = 3
		}
		var frec func(depth int)
		frec = func(depth int) {
			if r.TimeUp() {
				return
			}
			for _, a := range stepAlphabet(depth) {
				for _, b := range stepAlphabet(depth + 10) {
					if a.Op == "Output" || b.Op == "Output" {
						continue // both would go to the second writer; destinations are C05's subject
					}
					idx++
					if idx%int64(n) != int64(shard) {
						continue
					}
					bb := b
					for _, ef := range redForms[:4] {
						p := seqx.Program{Steps: append(append([]seqx.Step{}, chain...), a), Sibling: &bb, Entry: ef.entry, Fields: ef.fields, Final: ef.final}
						out := seqx.Run(p)
						r.Transitions += int64(len(chain) + 3)
						checkC03(r, p, out)
					}
				}
			}
			if depth == forkDepth {
				return
			}
			for _, s := range stepAlphabet(depth) {
				chain = append(chain, s)
				frec(depth + 1)
				chain = chain[:len(chain)-1]
			}
		}
		chain = chain[:0]
		frec(0)
		if tier == "thorough" {
			// depth 6 with at most two deviations from the default step
			def := func(d int) seqx.Step {
				return seqx.Step{Op: "With", Fields: []seqx.Field{{M: "Str", Key: fmt.Sprintf("c%d", d), Val: "v"}}}
			}
			L := 6
			for i := 0; i < L; i++ {
				for j := i + 1; j < L; j++ {
					for _, a := range stepAlphabet(i) {
						for _, b := range stepAlphabet(j) {
							chain = chain[:0]
							for d := 0; d < L; d++ {
								chain = append(chain, def(d))
							}
							chain[i], chain[j] = a, b
							emit(redForms)
						}
					}
				}
				if r.TimeUp() {
					break
				}
			}
		}
	})
	r.Exit()
}

func checkC03(r *seq.Run, p seqx.Program, out seqx.Output) {
	nontrivial := false
	for _, s := range p.Steps {
		if s.Op != "Level" && s.Op != "Output" && s.Op != "Sample" && s.Op != "WithEmpty" {
			nontrivial = true
		}
	}
	ex := out.Expected
	stateKey := fmt.Sprint(p.Steps)
	if out.Panic != "" {
		r.Eval("panic"+out.Panic, true)
		r.Violation("", "panic", fmt.Sprintf("panic %s in %s", out.Panic, p), p.String())
		return
	}
	got := seqx.Render(out.Lines)
	r.EvalHash(seq.Hash(stateKey, p.Entry.Kind, fmt.Sprint(p.Entry.Level, len(p.Fields)), p.Final.Kind, p.Final.Text, got), nontrivial)
	fail := func(key, format string, a ...interface{}) {
		r.Violation("", key, fmt.Sprintf(format, a...)+fmt.Sprintf("\n  program : %s\n  output  : %q\n  expected: written=%v %s hooks=%v", p, got, ex.Written, seqx.Obj(ex.Fields...), ex.HookCalls), p.String())
	}
	if len(out.Lines1) != 0 {
		fail("wrong-writer", "event went to the wrong destination (%d lines there)", len(out.Lines1))
		return
	}
	passesGate := ex.Written || len(ex.HookCalls) > 0 || gatePasses(p)
	if !passesGate {
		if len(out.HookLog.Calls) != 0 || len(out.Lines) != 0 {
			fail("filtered-not-inert", "event below the level gate: %d writes, hook calls %v", len(out.Lines), out.HookLog.Calls)
		}
		return
	}
	if !seqx.MatchHookCalls(out.HookLog.Calls, ex.HookCalls) {
		fail("hook-calls", "hook invocation log %v, expected %v", out.HookLog.Calls, ex.HookCalls)
		return
	}
	if !ex.Written {
		if len(out.Lines) != 0 {
			fail("discarded-written", "discarded event was written")
		}
		return
	}
	if len(out.Lines) != 1 {
		fail("writes", "%d writes for one event", len(out.Lines))
		return
	}
	root, err := jsonstrict.ParseLine(out.Lines[0])
	if err != nil {
		fail("invalid-json", "invalid JSON: %v", err)
		return
	}
	if err := seqx.MatchFields(root, ex.Fields); err != nil {
		fail("layout/"+firstWords(err.Error()), "layout: %v", err)
	}
}

func gatePasses(p seqx.Program) bool {
	lvl := p.Entry.EffLevel()
	min := zerolog.TraceLevel
	for _, s := range p.Steps {
		if s.Op == "Level" {
			min = s.Level
		}
	}
	return lvl >= min
}

type memW struct{ b []byte }

func (m *memW) Write(p []byte) (int, error) { m.b = append(m.b, p...); return len(p), nil }

type constHook struct{}

func (constHook) Run(e *zerolog.Event, l zerolog.Level, m string) { e.Str("gh", m) }

// logHelpers: log.With / Level / Sample / Hook / Output / Err / Trace..Log / WithLevel / Print* on the global
// logger must give the same bytes as the corresponding methods on the same Logger value.
func logHelpers(r *seq.Run) {
	for _, lvl := range []zerolog.Level{zerolog.TraceLevel, zerolog.InfoLevel, zerolog.ErrorLevel} {
		wa, wb := &memW{}, &memW{}
		base := func(w *memW) zerolog.Logger { return zerolog.New(w).With().Str("g", "base").Logger().Level(lvl) }
		a := base(wa)
		zlog.Logger = base(wb)
		e := fmt.Errorf("boom")
		// methods
		a.Trace().Msg("t")
		a.Debug().Msg("d")
		a.Info().Msg("i")
		a.Warn().Msg("w")
		a.Error().Msg("e")
		a.Err(e).Msg("x")
		a.Err(nil).Msg("y")
		a.Log().Msg("l")
		a.WithLevel(zerolog.WarnLevel).Msg("wl")
		a.Print("p", 1)
		a.Printf("%d", 2)
		la := a.With().Int("n", 1).Logger()
		la.Info().Msg("with")
		lb := a.Level(zerolog.WarnLevel)
		lb.Info().Msg("no")
		lb.Warn().Msg("yes")
		lc := a.Hook(constHook{})
		lc.Error().Msg("hooked")
		ld := a.Sample(&zerolog.BasicSampler{N: 2})
		ld.Error().Msg("s1")
		ld.Error().Msg("s2")
		ld.Error().Msg("s3")
		le := a.Output(wa)
		le.Error().Msg("out")
		// helpers
		zlog.Trace().Msg("t")
		zlog.Debug().Msg("d")
		zlog.Info().Msg("i")
		zlog.Warn().Msg("w")
		zlog.Error().Msg("e")
		zlog.Err(e).Msg("x")
		zlog.Err(nil).Msg("y")
		zlog.Log().Msg("l")
		zlog.WithLevel(zerolog.WarnLevel).Msg("wl")
		zlog.Print("p", 1)
		zlog.Printf("%d", 2)
		ha := zlog.With().Int("n", 1).Logger()
		ha.Info().Msg("with")
		hb := zlog.Level(zerolog.WarnLevel)
		hb.Info().Msg("no")
		hb.Warn().Msg("yes")
		hc := zlog.Hook(constHook{})
		hc.Error().Msg("hooked")
		hd := zlog.Sample(&zerolog.BasicSampler{N: 2})
		hd.Error().Msg("s1")
		hd.Error().Msg("s2")
		hd.Error().Msg("s3")
		he := zlog.Output(wb)
		he.Error().Msg("out")
		r.Eval("loghelpers"+string(wb.b), true)
		if string(wa.b) != string(wb.b) {
			r.Violation("", "log-helpers", fmt.Sprintf("logger level %d: the package-level helpers of zerolog/log emit\n%s\nthe same methods on the same Logger value emit\n%s", lvl, wb.b, wa.b), "log helpers")
		}
	}
}
