//go:build !binary_log

package main

func binaryBuild() bool { return false }
