package main

import (
	"bytes"
	"encoding/json"
	"errors"
	"fmt"
	"io/ioutil"
	"math"
	"reflect"
	"strconv"
	"strings"
	"time"

	"github.com/rs/zerolog"

	"verif/drv"
	"verif/oracle/jsonstrict"
	"verif/seq"
	"verif/seqx"
)

// entry point = a way of carrying one (method, value) into an event, plus where to find it in the output
type entryPoint struct {
	name  string
	build func(f seqx.Field) (seqx.Program, []string, bool)
}

func evProg(steps []seqx.Step, fields ...seqx.Field) seqx.Program {
	return seqx.Program{Steps: steps, Entry: entryLog, Fields: fields, Final: send}
}

var sliceOf = map[string]string{"Str": "Strs", "Bool": "Bools", "Int": "Ints", "Int8": "Ints8", "Int16": "Ints16", "Int32": "Ints32", "Int64": "Ints64",
	"Uint": "Uints", "Uint8": "Uints8", "Uint16": "Uints16", "Uint32": "Uints32", "Uint64": "Uints64", "Float32": "Floats32", "Float64": "Floats64",
	"Time": "Times", "Dur": "Durs", "Stringer": "Stringers", "AnErr": "Errs"}

func sliceValue(m string, v interface{}) (interface{}, bool) {
	switch x := v.(type) {
	case string:
		return []string{"x", x}, true
	case bool:
		return []bool{false, x}, true
	case int:
		return []int{1, x}, true
	case int8:
		return []int8{1, x}, true
	case int16:
		return []int16{1, x}, true
	case int32:
		return []int32{1, x}, true
	case int64:
		return []int64{1, x}, true
	case uint:
		return []uint{1, x}, true
	case uint8:
		return []uint8{1, x}, true
	case uint16:
		return []uint16{1, x}, true
	case uint32:
		return []uint32{1, x}, true
	case uint64:
		return []uint64{1, x}, true
	case float32:
		return []float32{1, x}, true
	case float64:
		return []float64{1, x}, true
	case time.Time:
		return []time.Time{seqx.TEp, x}, true
	case time.Duration:
		return []time.Duration{1, x}, true
	}
	if m == "AnErr" {
		if v == nil {
			return []error{errors.New("x"), nil}, true
		}
		return []error{errors.New("x"), v.(error)}, true
	}
	if m == "Stringer" {
		if v == nil {
			return []fmt.Stringer{seqx.Str("x"), nil}, true
		}
		return []fmt.Stringer{seqx.Str("x"), v.(fmt.Stringer)}, true
	}
	return nil, false
}

func entryPoints() []entryPoint {
	return []entryPoint{
		{"event", func(f seqx.Field) (seqx.Program, []string, bool) { return evProg(nil, f), []string{f.Key}, true }},
		{"context", func(f seqx.Field) (seqx.Program, []string, bool) {
			return evProg([]seqx.Step{{Op: "With", Fields: []seqx.Field{f}}}), []string{f.Key}, seqx.HasContextForm(f)
		}},
		{"dict", func(f seqx.Field) (seqx.Program, []string, bool) {
			return evProg(nil, seqx.Field{M: "Dict", Key: "d", Sub: []seqx.Field{f}}), []string{"d", f.Key}, true
		}},
		{"object", func(f seqx.Field) (seqx.Program, []string, bool) {
			return evProg(nil, seqx.Field{M: "Object", Key: "o", Form: "ptr", Sub: []seqx.Field{f}}), []string{"o", f.Key}, true
		}},
		{"ctx.object", func(f seqx.Field) (seqx.Program, []string, bool) {
			return evProg([]seqx.Step{{Op: "With", Fields: []seqx.Field{{M: "Object", Key: "o", Form: "val", Sub: []seqx.Field{f}}}}}), []string{"o", f.Key}, true
		}},
		{"array", func(f seqx.Field) (seqx.Program, []string, bool) {
			return evProg(nil, seqx.Field{M: "Array", Key: "a", Form: "arr", Sub: []seqx.Field{{M: "Int", Val: 0}, f}}), []string{"a", "#1"}, seqx.HasArrayForm(f)
		}},
		{"ctx.array", func(f seqx.Field) (seqx.Program, []string, bool) {
			return evProg([]seqx.Step{{Op: "With", Fields: []seqx.Field{{M: "Array", Key: "a", Form: "marsh", Sub: []seqx.Field{f}}}}}), []string{"a", "#0"}, seqx.HasArrayForm(f)
		}},
		{"fieldsmap", func(f seqx.Field) (seqx.Program, []string, bool) {
			return evProg(nil, seqx.Field{M: "Fields", Form: "map", Sub: []seqx.Field{f}}), []string{f.Key}, seqx.HasFieldsForm(f)
		}},
		{"fieldsslice", func(f seqx.Field) (seqx.Program, []string, bool) {
			return evProg(nil, seqx.Field{M: "Fields", Form: "slice", Sub: []seqx.Field{{M: "Int", Key: "z", Val: 1}, f}}), []string{f.Key}, seqx.HasFieldsForm(f)
		}},
		{"ctx.fields", func(f seqx.Field) (seqx.Program, []string, bool) {
			return evProg([]seqx.Step{{Op: "With", Fields: []seqx.Field{{M: "Fields", Form: "slice", Sub: []seqx.Field{f}}}}}), []string{f.Key}, seqx.HasFieldsForm(f)
		}},
		{"hook", func(f seqx.Field) (seqx.Program, []string, bool) {
			return evProg([]seqx.Step{{Op: "HookChain", Fields: []seqx.Field{f}}}), []string{f.Key}, true
		}},
		{"slice-variant", func(f seqx.Field) (seqx.Program, []string, bool) {
			sm, ok := sliceOf[f.M]
			if !ok {
				return seqx.Program{}, nil, false
			}
			sv, ok := sliceValue(f.M, f.Val)
			if !ok {
				return seqx.Program{}, nil, false
			}
			return evProg(nil, seqx.Field{M: sm, Key: f.Key, Val: sv}), []string{f.Key, "#1"}, true
		}},
		{"fields-slice-variant", func(f seqx.Field) (seqx.Program, []string, bool) {
			sm, ok := sliceOf[f.M]
			if !ok || f.M == "Stringer" || f.M == "Uint8" {
				return seqx.Program{}, nil, false
			}
			sv, ok := sliceValue(f.M, f.Val)
			if !ok {
				return seqx.Program{}, nil, false
			}
			return evProg(nil, seqx.Field{M: "Fields", Form: "map", Sub: []seqx.Field{{M: sm, Key: f.Key, Val: sv}}}), []string{f.Key, "#1"}, true
		}},
		{"interface", func(f seqx.Field) (seqx.Program, []string, bool) {
			switch f.M {
			case "Bool", "Int", "Int8", "Int16", "Int32", "Int64", "Uint", "Uint8", "Uint16", "Uint32", "Uint64":
				return evProg(nil, seqx.Field{M: "Interface", Key: f.Key, Val: f.Val}), []string{f.Key}, true
			}
			return seqx.Program{}, nil, false
		}},
	}
}

func locate(n *jsonstrict.Node, path []string) *jsonstrict.Node {
	for _, p := range path {
		if n == nil {
			return nil
		}
		if strings.HasPrefix(p, "#") && n.Kind == 'a' {
			i, _ := strconv.Atoi(p[1:])
			if i >= len(n.Items) {
				return nil
			}
			n = n.Items[i]
			continue
		}
		if n.Kind != 'o' {
			return nil
		}
		vs := n.Get(seqx.Sanitize(p))
		if len(vs) == 0 {
			return nil
		}
		n = vs[len(vs)-1]
	}
	return n
}

type c02 struct {
	r        *seq.Run
	shard, n int
	idx      int64
	eps      []entryPoint
	epHits   map[string]int64
	mHits    map[string]int64
}

// value checks one (method, value) through every entry point.
// Decoy is text that looks like pieces of encoded values of other types.
const Decoy = `e-07 1e-06 -0 e+21 \u003c \" \\ null true ," : {"k":1} [1,2] % %d 0.0000001 NaN data:application/cbor;base64,`

// pointerField logs &v through Fields (map and slice, on an event and on a context) and expects what v gives.
func (c *c02) pointerField(f seqx.Field) {
	c.idx++
	if c.idx%int64(c.n) != int64(c.shard) {
		return
	}
	pv := reflect.New(reflect.TypeOf(f.Val))
	pv.Elem().Set(reflect.ValueOf(f.Val))
	ptr := pv.Interface()
	want, ok := seqx.ValueExp(f)
	if !ok {
		return
	}
	for variant, p := range []seqx.Program{
		{Entry: entryLog, Fields: []seqx.Field{{M: "Fields", Val: map[string]interface{}{"key": ptr}}}, Final: send},
		{Entry: entryLog, Fields: []seqx.Field{{M: "Fields", Val: []interface{}{"key", ptr}}}, Final: send},
		{Steps: []seqx.Step{{Op: "With", Fields: []seqx.Field{{M: "Fields", Val: map[string]interface{}{"key": ptr}}}}}, Entry: entryLog, Final: send},
	} {
		out := seqx.Run(p)
		c.r.Transitions++
		desc := fmt.Sprintf("Fields{\"key\": &%s(%v)} (variant %d)", f.M, f.Val, variant)
		if out.Panic != "" || len(out.Lines) != 1 {
			c.r.Violation("", "pointer/run/"+f.M, fmt.Sprintf("%s: panic %q, %d writes", desc, out.Panic, len(out.Lines)), p.String())
			continue
		}
		c.r.Eval("ptr|"+string(out.Lines[0]), true)
		root, err := jsonstrict.ParseLine(out.Lines[0])
		if err != nil {
			c.r.Violation("", "pointer/invalid/"+f.M, fmt.Sprintf("%s: output %q is not valid JSON: %v", desc, out.Lines[0], err), p.String())
			continue
		}
		if err := seqx.MatchFields(root, []seqx.KV{{Key: "key", Exp: want}}); err != nil {
			c.r.Violation("", "pointer/value/"+f.M, fmt.Sprintf("%s: %v; output %q", desc, err, out.Lines[0]), p.String())
		}
	}
}

func (c *c02) neighbours(f seqx.Field) {
	c.idx++
	if c.idx%int64(c.n) != int64(c.shard) {
		return
	}
	before := seqx.Field{M: "Str", Key: "decoy-e-07", Val: Decoy}
	after := seqx.Field{M: "Str", Key: "after", Val: Decoy}
	for variant, p := range []seqx.Program{
		{Entry: entryLog, Fields: []seqx.Field{before, f, after}, Final: send},
		{Steps: []seqx.Step{{Op: "With", Fields: []seqx.Field{before}}}, Entry: entryLog, Fields: []seqx.Field{f, after}, Final: send},
		{Steps: []seqx.Step{{Op: "With", Fields: []seqx.Field{before, f}}}, Entry: entryLog, Fields: []seqx.Field{after}, Final: send},
	} {
		if variant == 2 && !seqx.HasContextForm(f) {
			continue
		}
		out := seqx.Run(p)
		c.r.Transitions++
		desc := fmt.Sprintf("%s between two decoy text fields (variant %d)", f, variant)
		if out.Panic != "" || len(out.Lines) != 1 {
			c.r.Violation("", "neighbours/run/"+f.M, fmt.Sprintf("%s: panic %q, %d writes", desc, out.Panic, len(out.Lines)), p.String())
			continue
		}
		c.r.Eval("nb|"+string(out.Lines[0]), true)
		root, err := jsonstrict.ParseLine(out.Lines[0])
		if err != nil {
			c.r.Violation("", "neighbours/invalid/"+f.M, fmt.Sprintf("%s: output %q is not valid JSON: %v", desc, out.Lines[0], err), p.String())
			continue
		}
		if err := seqx.MatchFields(root, seqx.FieldsExp([]seqx.Field{before, f, after})); err != nil {
			c.r.Violation("", "neighbours/value/"+f.M, fmt.Sprintf("%s: %v; output %q", desc, err, out.Lines[0]), p.String())
		}
	}
}

// afterUnwritten: the field is first given to events that are never written - a disabled (nil) event, an enabled
// event that is discarded, a context of the Nop logger - and then the same field and two fixed containers are
// logged: pooled arrays and dicts handed back on those paths must come out of the pool empty.
func (c *c02) afterUnwritten(f seqx.Field) {
	c.idx++
	if c.idx%int64(c.n) != int64(c.shard) {
		return
	}
	fixedA := seqx.Field{M: "Array", Key: "fa", Form: "arr", Sub: []seqx.Field{{M: "Int", Val: 7}}}
	fixedD := seqx.Field{M: "Dict", Key: "fd", Sub: []seqx.Field{{M: "Str", Key: "in", Val: "v"}}}
	for variant := 0; variant < 3; variant++ {
		if variant == 2 && !seqx.HasContextForm(f) {
			continue
		}
		desc := fmt.Sprintf("%s after the same field was given to %s", f, []string{"a disabled event", "an event that was discarded", "a context of the Nop logger"}[variant])
		pre := func() (pn string) {
			defer func() {
				if x := recover(); x != nil {
					pn = fmt.Sprint(x)
				}
			}()
			switch variant {
			case 0:
				seqx.ApplyEvent((*zerolog.Event)(nil), f)
			case 1:
				lg := zerolog.New(ioutil.Discard)
				seqx.ApplyEvent(lg.Log(), f).Discard()
			case 2:
				seqx.ApplyContext(zerolog.Nop().With(), f)
			}
			return ""
		}
		p := seqx.Program{Entry: entryLog, Fields: []seqx.Field{fixedA, f, fixedD}, Final: send}
		if pn := pre(); pn != "" {
			c.r.Violation("", "unwritten/prelude/"+f.M, fmt.Sprintf("%s: the unwritten call panicked: %s", desc, pn), p.String())
			continue
		}
		out := seqx.Run(p)
		c.r.Transitions++
		if out.Panic != "" || len(out.Lines) != 1 {
			c.r.Violation("", "unwritten/run/"+f.M, fmt.Sprintf("%s: panic %q, %d writes", desc, out.Panic, len(out.Lines)), p.String())
			continue
		}
		c.r.Eval("uw|"+string(out.Lines[0]), true)
		root, err := jsonstrict.ParseLine(out.Lines[0])
		if err != nil {
			c.r.Violation("", "unwritten/invalid/"+f.M, fmt.Sprintf("%s: output %q is not valid JSON: %v", desc, out.Lines[0], err), p.String())
			continue
		}
		if err := seqx.MatchFields(root, seqx.FieldsExp([]seqx.Field{fixedA, f, fixedD})); err != nil {
			c.r.Violation("", "unwritten/value/"+f.M, fmt.Sprintf("%s: %v; output %q", desc, err, out.Lines[0]), p.String())
		}
	}
}

func (c *c02) value(f seqx.Field, settings []int, eps []entryPoint) {
	c.idx++
	if c.idx%int64(c.n) != int64(c.shard) {
		return
	}
	c.mHits[f.M]++
	var eventRaw string
	haveEventRaw := false
	for _, ep := range eps {
		p, path, ok := ep.build(f)
		if !ok {
			continue
		}
		p.Settings = settings
		// expectation must be computed under the same settings: seqx.Run applies and restores them,
		// so ask it for the expectation of the field through a closure
		inArrayOrFields := ep.name == "array" || ep.name == "ctx.array" || strings.HasPrefix(ep.name, "fields") || ep.name == "ctx.fields" || strings.Contains(ep.name, "slice-variant")
		isIface := f.M == "Interface" || f.M == "Any"
		out, exp, expOK := runWithExp(p, f, isIface && inArrayOrFields && !strings.Contains(ep.name, "array"))
		c.epHits[ep.name]++
		c.r.Transitions++
		desc := func() string { return fmt.Sprintf("%s via %s settings=%v", f, ep.name, settingNames(settings)) }
		if out.Panic != "" {
			c.r.Eval("panic", true)
			c.r.Violation("", "panic/"+f.M+"/"+ep.name, fmt.Sprintf("%s: panic %s", desc(), out.Panic), p.String())
			continue
		}
		if len(out.Lines) != 1 {
			c.r.Eval("nowrite", true)
			c.r.Violation("", "writes/"+f.M+"/"+ep.name, fmt.Sprintf("%s: %d writes", desc(), len(out.Lines)), p.String())
			continue
		}
		line := out.Lines[0]
		c.r.Eval(ep.name+"|"+string(line), true)
		root, err := jsonstrict.ParseLine(line)
		if err != nil {
			c.r.Violation("", "invalid/"+f.M+"/"+ep.name, fmt.Sprintf("%s: output %q is not valid JSON: %v", desc(), line, err), p.String())
			continue
		}
		node := locate(root, path)
		if !expOK {
			// the field adds nothing (nil error) - except inside arrays / Fields where it is null
			if inArrayOrFields {
				if node == nil || node.Kind != 'z' {
					c.r.Violation("", "nilerr/"+f.M+"/"+ep.name, fmt.Sprintf("%s: expected null, output %q", desc(), line), p.String())
				}
			} else if node != nil {
				c.r.Violation("", "nilerr/"+f.M+"/"+ep.name, fmt.Sprintf("%s: expected no field, output %q", desc(), line), p.String())
			}
			continue
		}
		if node == nil {
			c.r.Violation("", "missing/"+f.M+"/"+ep.name, fmt.Sprintf("%s: field not found at %v in %q", desc(), path, line), p.String())
			continue
		}
		if err := seqx.Match(node, exp); err != nil {
			c.r.Violation("", "value/"+f.M+"/"+ep.name, fmt.Sprintf("%s: %v; output %q", desc(), err, line), p.String())
			continue
		}
		// same (type, value) encodes identically through every entry point
		if ep.name == "event" {
			eventRaw, haveEventRaw = node.Raw, true
		} else if haveEventRaw && ep.name != "interface" && !isIface && node.Raw != eventRaw {
			c.r.Violation("", "differential/"+f.M+"/"+ep.name, fmt.Sprintf("%s: encoded as %s, through Event as %s", desc(), node.Raw, eventRaw), p.String())
		}
	}
}

func settingNames(idx []int) []string {
	var out []string
	for _, i := range idx {
		out = append(out, seqx.AllSettings()[i].Name)
	}
	return out
}

// runWithExp runs p and computes f's expected value while p's settings are in force.
func runWithExp(p seqx.Program, f seqx.Field, native bool) (seqx.Output, seqx.Exp, bool) {
	var restores []func()
	for _, si := range p.Settings {
		restores = append(restores, seqx.AllSettings()[si].Apply())
	}
	exp, ok := seqx.ValueExp(f)
	if native {
		if ne, isNative := seqx.NativeExp(f.Val); isNative {
			exp = ne
		}
	}
	for i := len(restores) - 1; i >= 0; i-- {
		restores[i]()
	}
	return seqx.Run(p), exp, ok
}

func allStrings(alpha []string, maxLen int, f func(string)) {
	var rec func(prefix string, left int)
	rec = func(prefix string, left int) {
		f(prefix)
		if left == 0 {
			return
		}
		for _, a := range alpha {
			rec(prefix+a, left-1)
		}
	}
	rec("", maxLen)
}

func int64Neighbourhood() []int64 {
	seen := map[int64]bool{}
	var out []int64
	add := func(v int64) {
		if !seen[v] {
			seen[v] = true
			out = append(out, v)
		}
	}
	for k := 0; k < 64; k++ {
		base := int64(1) << uint(k)
		for d := int64(-2); d <= 2; d++ {
			add(base + d)
			add(-base + d)
		}
	}
	p := int64(1)
	for i := 0; i < 19; i++ {
		for d := int64(-2); d <= 2; d++ {
			add(p + d)
			add(-p + d)
		}
		if i < 18 {
			p *= 10
		}
	}
	add(math.MaxInt64)
	add(math.MinInt64)
	add(math.MaxInt64 - 1)
	add(math.MinInt64 + 1)
	return out
}

func runC02() {
	r := seq.New("C02", tier, "exploration")
	defer r.CrashGuard()
	r.Rule = "one evaluation = one (field method, value) carried through one entry point (Event, Context, Dict, Object, Array element, Fields map/slice, hook, slice variant, Interface) by a program executed on the real zerolog, or one value of a typed sweep through the Event entry point; the emitted line is re-read by the independent tokenizer and the field compared with the reference encoding (refenc); raw value bytes must be identical to those of the Event entry point; distinct = distinct (entry point, output line); non-trivial = every evaluation carries a value of a distinguishable class"
	r.Assumptions = []string{"exhaustive: all 8/16-bit integers, all float32 bit patterns (thorough) or 2^16 upper halves x 5 lower halves (quick), all strings up to length 3 (quick) / 4 (thorough) over a 21-symbol byte alphabet; 32/64-bit integers and float64 on boundary neighbourhoods", "times within the UnixNano range for the UNIX* formats; DurationFieldUnit > 0", "reference float rendering is encoding/json's"}
	if tier == "quick" {
		r.Deadline = time.Now().Add(150 * time.Second)
	} else {
		r.Deadline = time.Now().Add(30 * time.Minute)
	}
	seq.Sharded(r, drv.Workers(), func(r *seq.Run, shard, n int) {
		c := &c02{r: r, shard: shard, n: n, eps: entryPoints(), epHits: map[string]int64{}, mHits: map[string]int64{}}
		alpha := seqx.BuildAlphabet()
		_ = alpha
		nset := len(seqx.AllSettings())
		// Part A: every class value of every generic method through every entry point, default settings and each single deviation
		for _, m := range seqx.EventMethods() {
			vals := seqx.ClassValues(m)
			if vals == nil || m == "Err" {
				continue
			}
			for _, v := range vals {
				f := seqx.Field{M: m, Key: "key", Val: v}
				c.value(f, nil, c.eps)
				for si := 0; si < nset; si++ {
					name := seqx.AllSettings()[si].Name
					if strings.HasPrefix(name, "ErrorMarshalFunc") || strings.HasPrefix(name, "ErrorStack") || strings.HasPrefix(name, "InterfaceMarshal") {
						continue // rendering under caller-supplied marshal functions is not specified by C02
					}
					c.value(f, []int{si}, c.eps)
				}
			}
			for _, k := range seqx.KeyClasses {
				c.value(seqx.Field{M: m, Key: k, Val: vals[len(vals)-1]}, nil, c.eps[:4])
			}
		}
		// neighbours: every class value of every method between two text fields whose content looks like the
		// encodings of other types (exponents, escapes, literals, separators) - an encoder that post-processes the
		// buffer it appends to, instead of what it appended, damages them or is misled by them; on an event and
		// with the first decoy in the logger's context
		for _, m := range seqx.EventMethods() {
			vals := seqx.ClassValues(m)
			if vals == nil || m == "Err" {
				continue
			}
			for _, v := range vals {
				c.neighbours(seqx.Field{M: m, Key: "key", Val: v})
			}
		}
		for _, f := range alpha.Full {
			c.afterUnwritten(f)
		}
		// pointer-typed values in Fields (one arm per scalar type in the encoder): *T must render exactly as T does
		for _, m := range []string{"Str", "Bool", "Int", "Int8", "Int16", "Int32", "Int64", "Uint", "Uint8", "Uint16", "Uint32", "Uint64", "Float32", "Float64", "Time", "Dur"} {
			for _, v := range seqx.ClassValues(m) {
				c.pointerField(seqx.Field{M: m, Key: "key", Val: v})
			}
		}
		// containers and marshalers, including their nil / empty forms ("nil as null"), through every entry point
		for _, f := range alpha.Full {
			switch f.M {
			case "Object", "Dict", "Array":
				eps := c.eps
				if f.M == "Object" && f.Form == "nil" {
					// an untyped nil marshaler has no array-element form (Array.Object(nil) dereferences it; the
					// harness substitutes a typed nil there, which renders {}): not compared at array positions
					eps = nil
					for _, ep := range c.eps {
						if !strings.Contains(ep.name, "array") {
							eps = append(eps, ep)
						}
					}
				}
				c.value(seqx.Rekey(f, 0), nil, eps)
			}
		}
		c.value(seqx.Field{M: "TimeDiff", Key: "key", Val: seqx.TFix, Val2: seqx.TEp}, nil, c.eps[:4])
		c.value(seqx.Field{M: "TimeDiff", Key: "key", Val: seqx.TEp, Val2: seqx.TFix}, nil, c.eps[:4])
		// Part B: integers
		sweepEPs := pickEPs(c.eps, "event", "context", "array", "fieldsslice", "slice-variant", "fields-slice-variant", "interface")
		for v := -128; v <= 127; v++ {
			c.value(seqx.Field{M: "Int8", Key: "key", Val: int8(v)}, nil, sweepEPs)
			c.value(seqx.Field{M: "Uint8", Key: "key", Val: uint8(v + 128)}, nil, sweepEPs)
		}
		step16 := 1
		for v := -32768; v <= 32767; v += step16 {
			c.value(seqx.Field{M: "Int16", Key: "key", Val: int16(v)}, nil, sweepEPs)
			c.value(seqx.Field{M: "Uint16", Key: "key", Val: uint16(v + 32768)}, nil, sweepEPs)
			if r.TimeUp() {
				break
			}
		}
		for _, v := range int64Neighbourhood() {
			c.value(seqx.Field{M: "Int64", Key: "key", Val: v}, nil, sweepEPs)
			c.value(seqx.Field{M: "Int", Key: "key", Val: int(v)}, nil, sweepEPs)
			c.value(seqx.Field{M: "Uint64", Key: "key", Val: uint64(v)}, nil, sweepEPs)
			c.value(seqx.Field{M: "Uint", Key: "key", Val: uint(v)}, nil, sweepEPs)
			c.value(seqx.Field{M: "Int32", Key: "key", Val: int32(v)}, nil, sweepEPs)
			c.value(seqx.Field{M: "Uint32", Key: "key", Val: uint32(v)}, nil, sweepEPs)
			c.value(seqx.Field{M: "Dur", Key: "key", Val: time.Duration(v)}, nil, sweepEPs[:4])
		}
		// Part C: strings over the byte alphabet, as value, key, []byte, error text, Stringer
		maxLen := 3
		if tier == "thorough" {
			maxLen = 4
		}
		strEPs := pickEPs(c.eps, "event", "context", "array", "fieldsmap", "slice-variant")
		allStrings(seqx.TextAlphabet, maxLen, func(s string) {
			if r.TimeUp() {
				return
			}
			c.value(seqx.Field{M: "Str", Key: "key", Val: s}, nil, strEPs)
			c.value(seqx.Field{M: "Str", Key: s, Val: "v"}, nil, strEPs[:2])
			if len(s) <= 3*2 {
				c.value(seqx.Field{M: "Bytes", Key: "key", Val: []byte(s)}, nil, strEPs[:3])
				c.value(seqx.Field{M: "AnErr", Key: "key", Val: errors.New(s)}, nil, strEPs[:1])
				c.value(seqx.Field{M: "Stringer", Key: "key", Val: seqx.Str(s)}, nil, strEPs[:2])
			}
		})
		// every single byte value (the escape tables have one entry per control byte, the hex table one per nibble),
		// alone and between two letters, as text, key, []byte and Hex; and all 256 of them in one Hex / Bytes value
		all := make([]byte, 256)
		for b := 0; b < 256; b++ {
			all[b] = byte(b)
			for _, s := range []string{string([]byte{byte(b)}), "a" + string([]byte{byte(b)}) + "b"} {
				c.value(seqx.Field{M: "Str", Key: "key", Val: s}, nil, strEPs)
				c.value(seqx.Field{M: "Str", Key: s, Val: "v"}, nil, strEPs[:2])
				c.value(seqx.Field{M: "Bytes", Key: "key", Val: []byte(s)}, nil, strEPs[:3])
				c.value(seqx.Field{M: "Hex", Key: "key", Val: []byte(s)}, nil, strEPs[:3])
			}
		}
		c.value(seqx.Field{M: "Hex", Key: "key", Val: all}, nil, strEPs)
		c.value(seqx.Field{M: "Bytes", Key: "key", Val: all}, nil, strEPs)
		// Part E: times and durations under every format / unit
		times := []time.Time{seqx.T0, seqx.TEp, seqx.TFix, seqx.TNeg, seqx.TNow, time.Unix(0, math.MaxInt64).UTC(), time.Unix(0, math.MinInt64).UTC(),
			time.Unix(1, -1).UTC(), time.Date(2262, 4, 11, 23, 47, 16, 854775807, time.UTC), time.Date(1677, 9, 21, 0, 12, 43, 145224192, time.UTC),
			time.Date(2021, 1, 1, 0, 0, 0, 0, time.FixedZone("P", 14*3600)), time.Date(2021, 1, 1, 0, 0, 0, 999999999, time.FixedZone("M", -12*3600))}
		durs := []time.Duration{0, 1, -1, time.Millisecond - 1, time.Millisecond, time.Millisecond + 1, math.MaxInt64, math.MinInt64, 1500 * time.Microsecond, -time.Second, 3, 4, 5,
			// beyond 2^53 ns a float64 quotient is no longer exact: odd values, and values one nanosecond short of a whole unit
			1<<53 + 1, -(1<<53 + 1), 9007199255*time.Millisecond - 1, 9007200*time.Second - 1, -(9007200*time.Second - 1), 9007199254741*time.Microsecond - 1, math.MaxInt64 - 1, 1<<62 + 1, 3*(1<<60) - 1}
		for si := -1; si < nset; si++ {
			var set []int
			if si >= 0 {
				name := seqx.AllSettings()[si].Name
				if !(strings.HasPrefix(name, "TimeFieldFormat") || strings.HasPrefix(name, "Duration") || strings.HasPrefix(name, "FloatingPoint")) {
					continue
				}
				set = []int{si}
			}
			for _, t := range times {
				unixFmt := si >= 0 && strings.Contains(seqx.AllSettings()[si].Name, "UNIX")
				if unixFmt && (t.Year() > 2262 || t.Year() < 1678) {
					continue // outside the UnixNano range: excluded by the statement
				}
				c.value(seqx.Field{M: "Time", Key: "key", Val: t}, set, sweepEPs[:5])
			}
			for _, d := range durs {
				c.value(seqx.Field{M: "Dur", Key: "key", Val: d}, set, sweepEPs[:5])
				for _, sj := range []int{} {
					_ = sj
				}
			}
		}
		// two deviations: unit x integer x precision (never two values of the same setting)
		family := func(name string) string { return strings.SplitN(name, "=", 2)[0] }
		var durSets [][]int
		for si := 0; si < nset; si++ {
			for sj := si + 1; sj < nset; sj++ {
				a, b := seqx.AllSettings()[si].Name, seqx.AllSettings()[sj].Name
				if (strings.HasPrefix(a, "Duration") || strings.HasPrefix(a, "FloatingPoint")) && (strings.HasPrefix(b, "Duration") || strings.HasPrefix(b, "FloatingPoint")) && family(a) != family(b) {
					durSets = append(durSets, []int{si, sj})
				}
			}
		}
		for _, set := range durSets {
			for _, d := range durs {
				c.value(seqx.Field{M: "Dur", Key: "key", Val: d}, set, sweepEPs[:4])
			}
		}
		// Part D: floats through the typed API directly (tight loop)
		floatSweeps(r, shard, n)
		for k, v := range c.epHits {
			r.Count("entrypoint:"+k, v)
		}
		for k, v := range c.mHits {
			r.Count("method:"+k, v)
		}
		if shard == 0 {
			r.Sample(`Int16("key", -32768) via event, context, array, fieldsslice, slice-variant, fields-slice-variant, interface -> -32768 everywhere`)
			r.Sample(`Str("key", "\xed\xa0\x80") -> "���"`)
		}
	})
	r.Exit()
}

func pickEPs(all []entryPoint, names ...string) []entryPoint {
	var out []entryPoint
	for _, n := range names {
		for _, e := range all {
			if e.name == n {
				out = append(out, e)
			}
		}
	}
	return out
}

type capture struct{ b []byte }

func (c *capture) Write(p []byte) (int, error) { c.b = append(c.b[:0], p...); return len(p), nil }

// floatSweeps: every float32 bit pattern (thorough) / 2^16 x 5 patterns (quick); float64 boundary families.
func floatSweeps(r *seq.Run, shard, n int) {
	w := &capture{}
	lg := zerolog.New(w)
	prefix := []byte(`{"k":`)
	check32 := func(bits uint32) {
		v := math.Float32frombits(bits)
		lg.Log().Float32("k", v).Send()
		r.Evals++
		got := w.b
		if !bytes.HasPrefix(got, prefix) || len(got) < 8 || got[len(got)-1] != '\n' || got[len(got)-2] != '}' {
			r.Violation("", "float32/shape", fmt.Sprintf("Float32(bits %08x): output %q", bits, got), nil)
			return
		}
		val := got[len(prefix) : len(got)-2]
		want := expectFloat(float64(v), 32)
		if string(val) != want {
			r.Violation("", "float32/"+classFloat(float64(v)), fmt.Sprintf("Float32(bits %08x = %g): emitted %s, want %s (encoding/json rendering)", bits, v, val, want), nil)
			return
		}
		if val[0] != '"' {
			back, err := strconv.ParseFloat(string(val), 32)
			if err != nil || math.Float32bits(float32(back)) != bits {
				r.Violation("", "float32/roundtrip", fmt.Sprintf("Float32(bits %08x): emitted %s parses back to %08x (%v)", bits, val, math.Float32bits(float32(back)), err), nil)
			}
		}
	}
	check64 := func(v float64) {
		lg.Log().Float64("k", v).Send()
		r.Evals++
		got := w.b
		if !bytes.HasPrefix(got, prefix) || len(got) < 8 {
			r.Violation("", "float64/shape", fmt.Sprintf("Float64(%g): output %q", v, got), nil)
			return
		}
		val := got[len(prefix) : len(got)-2]
		want := expectFloat(v, 64)
		if string(val) != want {
			r.Violation("", "float64/"+classFloat(v), fmt.Sprintf("Float64(bits %016x = %g): emitted %s, want %s (encoding/json rendering)", math.Float64bits(v), v, val, want), nil)
			return
		}
		if val[0] != '"' {
			back, err := strconv.ParseFloat(string(val), 64)
			if err != nil || math.Float64bits(back) != math.Float64bits(v) {
				r.Violation("", "float64/roundtrip", fmt.Sprintf("Float64(bits %016x): emitted %s parses back differently (%v)", math.Float64bits(v), val, err), nil)
			}
		}
	}
	var n32 int64
	if tier == "thorough" {
		for hi := uint32(shard); hi < 1<<16; hi += uint32(n) {
			for lo := uint32(0); lo < 1<<16; lo++ {
				check32(hi<<16 | lo)
				n32++
			}
			if hi%256 == 0 && r.TimeUp() {
				break
			}
		}
	} else {
		for hi := uint32(shard); hi < 1<<16; hi += uint32(n) {
			for _, lo := range []uint32{0, 1, 0x7fff, 0x8000, 0xffff} {
				check32(hi<<16 | lo)
				n32++
			}
		}
		for _, c := range []float32{1e-6, 1e21} {
			b := math.Float32bits(c)
			for d := -64; d <= 64; d++ {
				if (d+64)%n == shard {
					check32(uint32(int64(b) + int64(d)))
					check32(uint32(int64(b)+int64(d)) | 1<<31)
					n32 += 2
				}
			}
		}
	}
	r.Count("float32_patterns", n32)
	var n64 int64
	mant := []uint64{0, 1, 2, 0x8000000000000, 0xfffffffffffff, 0xffffffffffffe, 0x5555555555555, 0xaaaaaaaaaaaaa, 0x1000000000000, 0x0000000000100, 0x7ffffffffffff, 0x4000000000000, 0x123456789abcd, 0xfedcba9876543, 0x0000000ffffff, 0xfffff00000000}
	for exp := uint64(shard); exp < 2048; exp += uint64(n) {
		for _, sign := range []uint64{0, 1} {
			for _, m := range mant {
				check64(math.Float64frombits(sign<<63 | exp<<52 | m))
				n64++
			}
		}
	}
	if shard == 0 {
		for _, c := range []float64{1e-6, 1e21, 1 << 53, 1e15, 1e16, 123456789.125} {
			b := math.Float64bits(c)
			for d := -64; d <= 64; d++ {
				check64(math.Float64frombits(uint64(int64(b) + int64(d))))
				check64(-math.Float64frombits(uint64(int64(b) + int64(d))))
				n64 += 2
			}
		}
		for e := -324; e <= 308; e++ {
			v, _ := strconv.ParseFloat(fmt.Sprintf("1e%d", e), 64)
			for _, x := range []float64{v, math.Nextafter(v, 0), math.Nextafter(v, math.Inf(1)), -v, v * 9.5, v * 1.5} {
				check64(x)
				n64++
			}
		}
	}
	r.Count("float64_patterns", n64)
}

func classFloat(v float64) string {
	a := math.Abs(v)
	switch {
	case math.IsNaN(v) || math.IsInf(v, 0):
		return "nonfinite"
	case a == 0:
		return "zero"
	case a < 1e-6:
		return "small"
	case a >= 1e21:
		return "large"
	}
	return "mid"
}

// expectFloat: the reference rendering (encoding/json), NaN/Inf as strings.
func expectFloat(v float64, bits int) string {
	switch {
	case math.IsNaN(v):
		return `"NaN"`
	case math.IsInf(v, 1):
		return `"+Inf"`
	case math.IsInf(v, -1):
		return `"-Inf"`
	}
	var b []byte
	if bits == 32 {
		b, _ = json.Marshal(float32(v))
	} else {
		b, _ = json.Marshal(v)
	}
	return string(b)
}
