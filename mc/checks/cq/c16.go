package main

import (
	"bytes"
	"encoding/json"
	"errors"
	"fmt"
	"os"
	"path/filepath"
	"sort"
	"strconv"
	"strings"
	"time"

	"github.com/rs/zerolog"

	"verif/drv"
	"verif/oracle/jsonstrict"
	"verif/seq"
	"verif/seqx"
)

// ---- refconsole: the renderer as the statement describes it (default formatters, colour off) ----

type consoleCfg struct {
	name         string
	partsOrder   []string
	partsExclude []string
	fieldsOrder  []string
	fieldsExcl   []string
	timeFormat   string
	loc          *time.Location
	tff          int  // index into AllSettings() of a TimeFieldFormat deviation, -1 = default
	renamed      bool // the program renamed the timestamp / level / message / error / caller field names (the event is "an event the JSON logger can emit"; the default parts follow the names)
}

func (c consoleCfg) writer(out *bytes.Buffer) zerolog.ConsoleWriter {
	// every writer gets its own copies of the configuration slices (with spare capacity, as a caller's slice may
	// have): a writer that edits them in place would otherwise also edit the reference's configuration
	cp := func(s []string) []string {
		if s == nil {
			return nil
		}
		return append(make([]string, 0, len(s)+2), s...)
	}
	return zerolog.ConsoleWriter{Out: out, NoColor: true, PartsOrder: cp(c.partsOrder), PartsExclude: cp(c.partsExclude), FieldsOrder: cp(c.fieldsOrder), FieldsExclude: cp(c.fieldsExcl), TimeFormat: c.timeFormat, TimeLocation: c.loc}
}

// sameCfg: the writer's configuration slices still hold what the caller put there.
func (c consoleCfg) sameCfg(w zerolog.ConsoleWriter) bool {
	eq := func(a, b []string) bool {
		if len(a) != len(b) {
			return false
		}
		for i := range a {
			if a[i] != b[i] {
				return false
			}
		}
		return true
	}
	return eq(w.PartsOrder, c.partsOrder) && eq(w.PartsExclude, c.partsExclude) && eq(w.FieldsOrder, c.fieldsOrder) && eq(w.FieldsExclude, c.fieldsExcl)
}

func needsQuoteRef(s string) bool {
	for i := 0; i < len(s); i++ {
		c := s[i]
		if c < 0x20 || c >= 0x7f || c == ' ' || c == '\\' || c == '"' {
			return true
		}
	}
	return false
}

// compactJSON re-encodes a parsed value the way encoding/json does without HTML escaping
// (object keys sorted, last duplicate wins, numbers verbatim).
func compactJSON(n *jsonstrict.Node) string {
	switch n.Kind {
	case 's':
		var b bytes.Buffer
		e := json.NewEncoder(&b)
		e.SetEscapeHTML(false)
		e.Encode(n.Str)
		return strings.TrimSuffix(b.String(), "\n")
	case 'n':
		return n.Str
	case 't':
		return "true"
	case 'f':
		return "false"
	case 'z':
		return "null"
	case 'a':
		var p []string
		for _, it := range n.Items {
			p = append(p, compactJSON(it))
		}
		return "[" + strings.Join(p, ",") + "]"
	case 'o':
		last := map[string]*jsonstrict.Node{}
		for i, k := range n.Keys {
			last[k] = n.Vals[i]
		}
		var ks []string
		for k := range last {
			ks = append(ks, k)
		}
		sort.Strings(ks)
		var p []string
		for _, k := range ks {
			p = append(p, compactJSON(&jsonstrict.Node{Kind: 's', Str: k})+":"+compactJSON(last[k]))
		}
		return "{" + strings.Join(p, ",") + "}"
	}
	return "?"
}

func fieldValueRef(n *jsonstrict.Node) string {
	switch n.Kind {
	case 's':
		if needsQuoteRef(n.Str) {
			return strconv.Quote(n.Str)
		}
		return n.Str
	case 'n':
		return n.Str
	}
	return compactJSON(n)
}

// refFields: the fields suffix; withOrder=false means the error field's position is free (FieldsOrder set).
func refFields(root *jsonstrict.Node, c consoleCfg) (tokens []string, errTok string) {
	last := map[string]*jsonstrict.Node{}
	for i, k := range root.Keys {
		last[k] = root.Vals[i]
	}
	var names []string
	for k := range last {
		switch k {
		case zerolog.LevelFieldName, zerolog.TimestampFieldName, zerolog.MessageFieldName, zerolog.CallerFieldName:
			continue
		}
		ex := false
		for _, x := range c.fieldsExcl {
			if x == k {
				ex = true
			}
		}
		if !ex {
			names = append(names, k)
		}
	}
	sort.Strings(names)
	if len(c.fieldsOrder) > 0 {
		rank := map[string]int{}
		for i, f := range c.fieldsOrder {
			rank[f] = i
		}
		sort.SliceStable(names, func(i, j int) bool {
			ri, oi := rank[names[i]]
			rj, oj := rank[names[j]]
			if oi && oj {
				return ri < rj
			}
			if oi != oj {
				return oi
			}
			return names[i] < names[j]
		})
	} else {
		// error first
		for i, k := range names {
			if k == zerolog.ErrorFieldName {
				names = append([]string{k}, append(append([]string{}, names[:i]...), names[i+1:]...)...)
				break
			}
		}
	}
	for _, k := range names {
		tok := k + "=" + fieldValueRef(last[k])
		if k == zerolog.ErrorFieldName && len(c.fieldsOrder) > 0 {
			errTok = tok
			continue
		}
		tokens = append(tokens, tok)
	}
	return
}

// refParts renders the parts prefix; ok=false when some configured part is absent or not of the type the
// logger itself emits (the statement does not say how such a part is drawn).
func refParts(root *jsonstrict.Node, c consoleCfg) (parts []string, ok bool) {
	last := map[string]*jsonstrict.Node{}
	for i, k := range root.Keys {
		last[k] = root.Vals[i]
	}
	order := c.partsOrder
	if order == nil {
		order = []string{zerolog.TimestampFieldName, zerolog.LevelFieldName, zerolog.CallerFieldName, zerolog.MessageFieldName}
	}
	loc := c.loc
	if loc == nil {
		loc = time.Local
	}
	tf := c.timeFormat
	if tf == "" {
		tf = time.Kitchen
	}
	ok = true
	for _, p := range order {
		excluded := false
		for _, x := range c.partsExclude {
			if x == p {
				excluded = true
			}
		}
		if excluded {
			continue
		}
		v := last[p]
		s := ""
		switch p {
		case zerolog.LevelFieldName:
			if v == nil || v.Kind != 's' {
				ok = false
				continue
			}
			// the documented three-letter forms, as a table of this check (not read from the library)
			fl, known := map[string]string{"trace": "TRC", "debug": "DBG", "info": "INF", "warn": "WRN", "error": "ERR", "fatal": "FTL", "panic": "PNC"}[strings.ToLower(v.Str)]
			if !known {
				ok = false
				continue
			}
			s = fl
		case zerolog.TimestampFieldName:
			if v == nil {
				ok = false
				continue
			}
			switch v.Kind {
			case 's':
				ts, err := time.ParseInLocation(zerolog.TimeFieldFormat, v.Str, loc)
				if err != nil {
					ok = false
					continue
				}
				s = ts.In(loc).Format(tf)
			case 'n':
				i, err := strconv.ParseInt(v.Str, 10, 64)
				if err != nil {
					ok = false
					continue
				}
				var ts time.Time
				switch zerolog.TimeFieldFormat {
				case zerolog.TimeFormatUnixNano:
					ts = time.Unix(0, i)
				case zerolog.TimeFormatUnixMicro:
					ts = time.Unix(0, i*1000)
				case zerolog.TimeFormatUnixMs:
					ts = time.Unix(0, i*1000000)
				case zerolog.TimeFormatUnix:
					ts = time.Unix(i, 0)
				default:
					ok = false
					continue
				}
				s = ts.In(loc).Format(tf)
			default:
				ok = false
				continue
			}
		case zerolog.MessageFieldName:
			if v == nil {
				continue
			}
			if v.Kind != 's' {
				ok = false
				continue
			}
			s = v.Str
		case zerolog.CallerFieldName:
			if v == nil {
				continue
			}
			if v.Kind != 's' {
				ok = false
				continue
			}
			if v.Str != "" {
				cc := v.Str
				if cwd, err := os.Getwd(); err == nil {
					if rel, err := filepath.Rel(cwd, cc); err == nil {
						cc = rel
					}
				}
				s = cc + " >"
			}
		default: // custom part: string or number valued
			if v == nil || (v.Kind != 's' && v.Kind != 'n') || needsQuoteRef(strings.ReplaceAll(v.Str, " ", "")) {
				ok = false
				continue
			}
			s = v.Str
		}
		if s != "" {
			parts = append(parts, s)
		}
	}
	return
}

// renameFields renames the standard fields the way a program may; it returns the undo.
func renameFields() func() {
	ts, lv, ms, er, ca := zerolog.TimestampFieldName, zerolog.LevelFieldName, zerolog.MessageFieldName, zerolog.ErrorFieldName, zerolog.CallerFieldName
	zerolog.TimestampFieldName, zerolog.LevelFieldName, zerolog.MessageFieldName, zerolog.ErrorFieldName, zerolog.CallerFieldName = "ts", "lvl", "msg", "err", "src"
	return func() {
		zerolog.TimestampFieldName, zerolog.LevelFieldName, zerolog.MessageFieldName, zerolog.ErrorFieldName, zerolog.CallerFieldName = ts, lv, ms, er, ca
	}
}

func consoleConfigs(tier string) []consoleCfg {
	tffs := []int{-1}
	for i, s := range seqx.AllSettings() {
		if strings.HasPrefix(s.Name, "TimeFieldFormat") {
			tffs = append(tffs, i)
		}
	}
	type dev func(c *consoleCfg)
	var devs []struct {
		name string
		f    dev
	}
	add := func(name string, f dev) {
		devs = append(devs, struct {
			name string
			f    dev
		}{name, f})
	}
	add("PartsOrder=[message level]", func(c *consoleCfg) { c.partsOrder = []string{"message", "level"} })
	add("PartsOrder=[level time message caller]", func(c *consoleCfg) { c.partsOrder = []string{"level", "time", "message", "caller"} })
	add("PartsOrder=[message]", func(c *consoleCfg) { c.partsOrder = []string{"message"} })
	add("PartsOrder=[]", func(c *consoleCfg) { c.partsOrder = []string{} })
	add("PartsOrder=[k0 level message]+exclude k0", func(c *consoleCfg) {
		c.partsOrder = []string{"k0", "level", "message"}
		c.fieldsExcl = append(c.fieldsExcl, "k0")
	})
	add("PartsExclude=[time]", func(c *consoleCfg) { c.partsExclude = []string{"time"} })
	add("PartsExclude=[level message]", func(c *consoleCfg) { c.partsExclude = []string{"level", "message"} })
	add("FieldsOrder=[k1]", func(c *consoleCfg) { c.fieldsOrder = []string{"k1"} })
	add("FieldsOrder=[k1 k0]", func(c *consoleCfg) { c.fieldsOrder = []string{"k1", "k0"} })
	add("FieldsOrder=[error k1]", func(c *consoleCfg) { c.fieldsOrder = []string{"error", "k1"} })
	add("FieldsOrder=[zzz post]", func(c *consoleCfg) { c.fieldsOrder = []string{"zzz", "post"} })
	add("FieldsOrder=[k1 k0 k1]", func(c *consoleCfg) { c.fieldsOrder = []string{"k1", "k0", "k1"} }) // a name listed twice: still rendered once
	add("FieldsExclude=[k0]", func(c *consoleCfg) { c.fieldsExcl = append(c.fieldsExcl, "k0") })
	add("FieldsExclude=[error]", func(c *consoleCfg) { c.fieldsExcl = append(c.fieldsExcl, "error") })
	add("FieldsExclude=[\"\" pre]", func(c *consoleCfg) { c.fieldsExcl = append(c.fieldsExcl, "", "pre") })
	add("FieldsExclude=[k err] (prefixes only)", func(c *consoleCfg) { c.fieldsExcl = append(c.fieldsExcl, "k", "err", "k00") })
	add("PartsExclude=[tim lev] (prefixes only)", func(c *consoleCfg) { c.partsExclude = []string{"tim", "lev", "messages"} })
	add("TimeFormat=RFC3339", func(c *consoleCfg) { c.timeFormat = time.RFC3339 })
	add("TimeFormat=15:04:05.000", func(c *consoleCfg) { c.timeFormat = "15:04:05.000" })
	add("TimeFormat=RFC3339Nano", func(c *consoleCfg) { c.timeFormat = time.RFC3339Nano }) // (every digit of a nanosecond timestamp)
	add("TimeLocation=+02:30", func(c *consoleCfg) { c.loc = time.FixedZone("Z", 2*3600+1800) })
	add("TimeLocation=-07:00 (same zone NAME, another offset)", func(c *consoleCfg) { c.loc = time.FixedZone("Z", -7*3600) })
	for _, t := range tffs[1:] {
		t := t
		add(seqx.AllSettings()[t].Name, func(c *consoleCfg) { c.tff = t })
	}
	add("field names renamed (ts lvl msg err src)", func(c *consoleCfg) { c.renamed = true })
	out := []consoleCfg{{name: "default", tff: -1}}
	for i, d := range devs {
		c := consoleCfg{name: d.name, tff: -1}
		d.f(&c)
		out = append(out, c)
		for j := i + 1; j < len(devs); j++ {
			c2 := consoleCfg{name: d.name + " & " + devs[j].name, tff: -1}
			d.f(&c2)
			devs[j].f(&c2)
			out = append(out, c2)
			if tier == "thorough" {
				for k := j + 1; k < len(devs); k += 3 {
					c3 := consoleCfg{name: c2.name + " & " + devs[k].name, tff: -1}
					d.f(&c3)
					devs[j].f(&c3)
					devs[k].f(&c3)
					out = append(out, c3)
				}
			}
		}
	}
	return out
}

func runC16() {
	r := seq.New("C16", tier, "exploration")
	defer r.CrashGuard()
	r.Rule = "one evaluation = one (event, ConsoleWriter configuration): events are the lines emitted by bounded-exhaustive logging programs (every class value and key class, containers, duplicate keys, keys equal to part names, the empty key, with/without error field and timestamp); configurations have <= 2 (quick) / 3 (thorough) deviations among PartsOrder, PartsExclude, FieldsOrder, FieldsExclude, TimeFormat, TimeLocation and the global TimeFieldFormat; the bytes written and (n, err) are compared with a reference renderer written from the statement, twice (fresh and reused writer); distinct = distinct (configuration, output); non-trivial = the event has at least one field beyond the standard parts"
	r.Assumptions = []string{"NoColor=true, default formatters", "the parts prefix is compared exactly only when every configured part is present with the type the logger emits; otherwise only (n, err), the fields suffix and determinism are checked", "a custom part named in PartsOrder is also listed in FieldsExclude, as upstream documents", "messages contain no control characters (how the message part draws them is not specified)"}
	if tier == "quick" {
		r.Deadline = time.Now().Add(150 * time.Second)
	} else {
		r.Deadline = time.Now().Add(25 * time.Minute)
	}
	seq.Sharded(r, drv.Workers(), func(r *seq.Run, shard, n int) {
		cfgs := consoleConfigs(tier)
		alpha := seqx.BuildAlphabet()
		var idx int64
		perCfg := map[string]int64{}
		render := func(p seqx.Program) {
			for ci, c := range cfgs {
				idx++
				if idx%int64(n) != int64(shard) {
					continue
				}
				if ci > 0 && tier == "quick" && (idx/int64(n))%3 != 0 && len(p.Fields) > 1 {
					// quick: two-symbol events meet a third of the non-default configurations
					continue
				}
				func() {
					pp := p
					if c.tff >= 0 {
						pp.Settings = []int{c.tff}
					}
					unrename := func() {}
					if c.renamed {
						unrename = renameFields()
					}
					defer unrename()
					out := seqx.Run(pp)
					if out.Panic != "" || len(out.Lines) != 1 {
						return // C01's business
					}
					line := out.Lines[0]
					root, err := jsonstrict.ParseLine(line)
					if err != nil {
						return // C01's business
					}
					var restore func()
					if c.tff >= 0 {
						restore = seqx.AllSettings()[c.tff].Apply()
					}
					checkConsole(r, c, line, root, p)
					if restore != nil {
						restore()
					}
					perCfg[c.name]++
				}()
			}
		}
		A, S := alpha.Full, alpha.Structural
		tsStep := []seqx.Step{{Op: "Timestamp"}}
		mk := func(steps []seqx.Step, e seqx.Entry, fs []seqx.Field, f seqx.Final) seqx.Program {
			return seqx.Program{Steps: steps, Entry: e, Fields: fs, Final: f}
		}
		errF := seqx.Field{M: "Err", Val: fmt.Errorf("boom failed")}
		for _, a := range A {
			f := seqx.Rekey(a, 0)
			render(mk(tsStep, entryInfo, []seqx.Field{f}, msgM))
			render(mk(nil, entryLog, []seqx.Field{f}, send))
			render(mk(tsStep, seqx.Entry{Kind: "Error"}, []seqx.Field{errF, f}, seqx.Final{Kind: "Msg", Text: "two words"}))
			if r.TimeUp() {
				return
			}
		}
		// one event at every named level (the level part has one rendering per level)
		for _, e := range []seqx.Entry{{Kind: "Trace"}, {Kind: "Debug"}, {Kind: "Warn"}, {Kind: "WithLevel", Level: zerolog.FatalLevel}, {Kind: "WithLevel", Level: zerolog.PanicLevel}, {Kind: "WithLevel", Level: zerolog.Level(42)}} {
			render(mk(tsStep, e, []seqx.Field{{M: "Str", Key: "k0", Val: "v"}, {M: "Int", Key: "k1", Val: 5}}, msgM))
			render(mk(nil, e, nil, send))
		}
		for _, k := range []string{"", "level", "message", "time", "caller", "error", "k 0", "é", "a=b"} {
			for _, v := range []interface{}{"s", "two words", `q"`, `b\s`, "é", "\x7f", "t\tb", "a=b", ""} {
				f := seqx.Field{M: "Str", Key: k, Val: v}
				render(mk(tsStep, entryInfo, []seqx.Field{f, {M: "Int", Key: "k1", Val: 5}}, msgM))
				render(mk(tsStep, seqx.Entry{Kind: "Error"}, []seqx.Field{errF, f}, msgM))
				render(mk(nil, entryLog, []seqx.Field{f, f}, send))
			}
		}
		// nested values whose strings hold characters that a JSON re-encoder may or may not escape
		for _, txt := range []string{"<a&b>", "\u2028x", "q\"\\", "é\x7f", "sp ace", "100%d %s%%", "%!v(MISSING)"} {
			nested := []seqx.Field{
				{M: "Strs", Key: "k0", Val: []string{txt, "v"}},
				{M: "Dict", Key: "k0", Sub: []seqx.Field{{M: "Str", Key: txt, Val: txt}}},
				{M: "Interface", Key: "k0", Val: map[string]interface{}{"h": txt, "n": []interface{}{txt, 1.5, nil}}},
				{M: "Array", Key: "k0", Form: "arr", Sub: []seqx.Field{{M: "Str", Val: txt}, {M: "Dict", Sub: []seqx.Field{{M: "Str", Key: "in", Val: txt}}}}},
				{M: "Errs", Key: "k0", Val: []error{fmt.Errorf("%s", txt)}},
			}
			for _, f := range nested {
				render(mk(tsStep, entryInfo, []seqx.Field{f, {M: "Int", Key: "k1", Val: 5}}, msgM))
				render(mk(nil, seqx.Entry{Kind: "Error"}, []seqx.Field{errF, f}, send))
			}
		}
		for _, a := range S {
			for _, b := range S {
				render(mk(tsStep, entryInfo, []seqx.Field{seqx.Rekey(a, 0), seqx.Rekey(b, 1)}, msgM))
			}
			if r.TimeUp() {
				return
			}
		}
		r.Count("configurations", int64(len(cfgs))/int64(n))
		if shard == 0 {
			r.Extra["configurations"] = len(cfgs)
		}
	})
	r.Exit()
}

type countOut struct {
	bytes.Buffer
	calls int
}

func (c *countOut) Write(p []byte) (int, error) { c.calls++; return c.Buffer.Write(p) }

var faultSeq uint64

// failOut is a destination that fails: 0 = error at once, 1 = short write without error, 2 = half the bytes then an error.
type failOut struct{ mode int }

func (f *failOut) Write(p []byte) (int, error) {
	switch f.mode {
	case 0:
		return 0, errors.New("out failed")
	case 1:
		return len(p) / 2, nil
	}
	return len(p) / 2, errors.New("out failed midway")
}

func checkConsole(r *seq.Run, c consoleCfg, line []byte, root *jsonstrict.Node, p seqx.Program) {
	// an earlier Write, through another ConsoleWriter, whose destination fails (alternately an error, a short
	// write, an error after half of the bytes): whatever that leaves in pooled buffers must not show up here
	faultSeq++
	zerolog.ConsoleWriter{Out: &failOut{mode: int(faultSeq % 3)}, NoColor: true}.Write(line)
	var b1, b2 bytes.Buffer
	w1 := c.writer(&b1)
	n1, err1 := w1.Write(line)
	n1b, err1b := w1.Write(line) // reused writer
	w2 := c.writer(&b2)
	n2, err2 := w2.Write(line) // fresh writer
	got := b2.String()
	hasFields := len(root.Keys) > 2
	r.Eval(c.name+"|"+got, hasFields)
	r.Transitions++
	desc := func() string {
		return fmt.Sprintf("config {%s}\n  event : %q\n  output: %q", c.name, line, got)
	}
	if err1 != nil || err2 != nil || err1b != nil || n1 != len(line) || n2 != len(line) || n1b != len(line) {
		r.Violation("", "console/result", fmt.Sprintf("Write returned (%d,%v) / (%d,%v), want (%d,nil)\n  %s", n1, err1, n2, err2, len(line), desc()), p.String())
		return
	}
	// the same configuration reached through the constructor: once through an option function, once by
	// assigning the fields of the returned value afterwards (both are ordinary uses of the exported fields)
	{
		var b3, b4 bytes.Buffer
		ref := c.writer(&b3)
		w3 := zerolog.NewConsoleWriter(func(w *zerolog.ConsoleWriter) { *w = ref })
		w4 := zerolog.NewConsoleWriter(func(w *zerolog.ConsoleWriter) { w.Out, w.NoColor = &b4, true })
		r4 := c.writer(&b4)
		if c.partsOrder != nil {
			w4.PartsOrder = r4.PartsOrder
		}
		w4.PartsExclude, w4.FieldsOrder, w4.FieldsExclude, w4.TimeLocation = r4.PartsExclude, r4.FieldsOrder, r4.FieldsExclude, r4.TimeLocation
		if c.timeFormat != "" {
			w4.TimeFormat = c.timeFormat
		}
		n3, err3 := w3.Write(line)
		n4, err4 := w4.Write(line)
		if err3 != nil || err4 != nil || n3 != len(line) || n4 != len(line) || b3.String() != got || b4.String() != got {
			r.Violation("", "console/constructor", fmt.Sprintf("a writer built by NewConsoleWriter renders the event differently from the struct literal with the same fields: via an option %q (%d,%v), via assignment afterwards %q (%d,%v), literal %q\n  %s", b3.String(), n3, err3, b4.String(), n4, err4, got, desc()), p.String())
			return
		}
	}
	if !c.sameCfg(w1) || !c.sameCfg(w2) {
		r.Violation("", "console/config-modified", fmt.Sprintf("Write modified the caller's configuration slices: PartsOrder=%q PartsExclude=%q FieldsOrder=%q FieldsExclude=%q\n  %s", w1.PartsOrder, w1.PartsExclude, w1.FieldsOrder, w1.FieldsExclude, desc()), p.String())
		return
	}
	if b1.String() != got+got {
		r.Violation("", "console/determinism", fmt.Sprintf("same event and configuration rendered differently: %q vs %q\n  %s", b1.String(), got+got, desc()), p.String())
		return
	}
	parts, partsOK := refParts(root, c)
	if !strings.HasSuffix(got, "\n") {
		r.Violation("", "console/oneline", fmt.Sprintf("output does not end with a newline\n  %s", desc()), p.String())
		return
	}
	body := strings.TrimSuffix(got, "\n")
	toks, errTok := refFields(root, c)
	oneLine := func() {
		if !partsOK || strings.Count(got, "\n") == 1 {
			return
		}
		// more than one line although every part and field rendered as the reference says: the only
		// source left is a field NAME holding a raw control character (names are printed verbatim)
		sig := ""
		for _, t := range toks {
			if i := strings.Index(t, "="); i >= 0 && strings.ContainsAny(t[:i], "\n\r") {
				sig = "console-fieldname-newline"
			}
		}
		r.Violation(sig, "console/oneline", fmt.Sprintf("output is not exactly one line\n  %s", desc()), p.String())
	}
	sig := ""
	// candidate field suffixes: with FieldsOrder set the error field may stand anywhere among the fields
	var suffixes []string
	if errTok == "" {
		suffixes = []string{strings.Join(toks, " ")}
	} else {
		for pos := 0; pos <= len(toks); pos++ {
			cand := append(append(append([]string{}, toks[:pos]...), errTok), toks[pos:]...)
			suffixes = append(suffixes, strings.Join(cand, " "))
		}
	}
	for _, wantSuffix := range suffixes {
		if partsOK {
			want := strings.Join(parts, " ")
			if want != "" && wantSuffix != "" {
				want += " "
			}
			want += wantSuffix
			if body == want {
				oneLine()
				return
			}
		} else if wantSuffix == "" || body == wantSuffix || strings.HasSuffix(body, " "+wantSuffix) {
			return
		}
	}
	if partsOK {
		want := strings.Join(parts, " ")
		if want != "" && suffixes[0] != "" {
			want += " "
		}
		want += suffixes[0]
		r.Violation(sig, "console/exact/"+diffClass(body, want), fmt.Sprintf("want %q\n  %s", want, desc()), p.String())
		return
	}
	r.Violation(sig, "console/fields/"+diffClass(body, suffixes[0]), fmt.Sprintf("fields: want suffix %q\n  %s", suffixes[0], desc()), p.String())
}

func normalizeSpaces(s string) string { return strings.Join(strings.Fields(s), " ") }

func diffClass(got, want string) string {
	switch {
	case len(got) < len(want):
		return "shorter"
	case len(got) > len(want):
		return "longer"
	}
	return "differs"
}
