package main

import (
	"bufio"
	"bytes"
	"encoding/base64"
	"encoding/binary"
	"encoding/hex"
	"encoding/json"
	"fmt"
	"io"
	"math"
	"math/big"
	"net"
	"os"
	"os/exec"
	"path/filepath"
	"strconv"
	"strings"
	"sync"
	"time"

	"github.com/rs/zerolog"

	"verif/drv"
	"verif/oracle/cbor8949"
	"verif/oracle/jsonstrict"
	"verif/seq"
	"verif/seqx"
)

// ---- the program set shared by C08 (both builds, in lock-step) and C09 ----

func lenBoundaryFields() []seqx.Field {
	var out []seqx.Field
	for _, n := range []int{0, 1, 23, 24, 255, 256, 65535, 65536} {
		s := strings.Repeat("x", n)
		out = append(out, seqx.Field{M: "Str", Key: "k", Val: s}, seqx.Field{M: "Bytes", Key: "k", Val: []byte(s)}, seqx.Field{M: "Hex", Key: "k", Val: []byte(s)})
		if n <= 256 {
			out = append(out, seqx.Field{M: "Str", Key: s, Val: "v"})
			ss := make([]string, n)
			is := make([]int, n)
			bs := make([]bool, n)
			fs := make([]float64, n)
			for i := range ss {
				ss[i] = "e"
				is[i] = i - 5
				bs[i] = i%2 == 0
				fs[i] = float64(i) / 4
			}
			out = append(out, seqx.Field{M: "Strs", Key: "k", Val: ss}, seqx.Field{M: "Ints", Key: "k", Val: is}, seqx.Field{M: "Bools", Key: "k", Val: bs}, seqx.Field{M: "Floats64", Key: "k", Val: fs})
			var sub []seqx.Field
			for i := 0; i < n; i++ {
				sub = append(sub, seqx.Field{M: "Int", Val: i})
			}
			out = append(out, seqx.Field{M: "Array", Key: "k", Form: "arr", Sub: sub})
		}
		out = append(out, seqx.Field{M: "RawJSON", Key: "k", Val: []byte(`"` + s + `"`)}, seqx.Field{M: "RawCBOR", Key: "k", Val: []byte(s)})
	}
	return out
}

// cborExcluded: values whose binary form the statement does not cover (C08 names 4/16-byte IPs and 6-byte MACs).
func cborExcluded(f seqx.Field) bool {
	switch f.M {
	case "IPAddr":
		ip, _ := f.Val.(net.IP)
		return len(ip) != 4 && len(ip) != 16
	case "MACAddr":
		m, _ := f.Val.(net.HardwareAddr)
		return len(m) != 6
	case "IPPrefix":
		p := f.Val.(net.IPNet)
		if ones, bits := p.Mask.Size(); ones == 0 && bits == 0 && len(p.Mask) > 0 {
			return true // non-canonical mask: the statement names canonical prefixes
		}
		return len(p.IP) != 4 && len(p.IP) != 16
	case "Caller", "Timestamp":
		return f.M == "Caller" // caller paths are equal in both builds but machine dependent; keep it simple
	}
	for _, s := range f.Sub {
		if cborExcluded(s) {
			return true
		}
	}
	return false
}

func enumerateCbor(tier string, shard, n int, timeUp func() bool, emit func(p seqx.Program, site string)) {
	alpha := seqx.BuildAlphabet()
	sites := seqx.Sites()
	var idx int64
	prog := func(p seqx.Program, site string) {
		idx++
		if idx%int64(n) != int64(shard) {
			return
		}
		emit(p, site)
	}
	at := func(chain []seqx.Field, ss []seqx.Site, entries []seqx.Entry, finals []seqx.Final) {
		for _, f := range chain {
			if cborExcluded(f) {
				return
			}
		}
		for _, s := range ss {
			steps, fields, ok := s.Build(chain)
			if !ok {
				continue
			}
			for _, e := range entries {
				for _, f := range finals {
					prog(seqx.Program{Steps: steps, Entry: e, Fields: fields, Final: f}, s.Name)
				}
			}
		}
	}
	A, S := alpha.Full, alpha.Structural
	core := pickSites(sites, "event", "context", "ctx(pre)+event", "dict", "object(mid)", "embed", "array", "fieldsslice", "fieldsmap", "hook", "updatecontext", "ctx.embed(mid)", "ctx.fieldsmap", "array[object]", "ctx.array")
	for _, a := range A {
		at([]seqx.Field{seqx.Rekey(a, 0)}, sites, []seqx.Entry{entryInfo, entryLog}, []seqx.Final{msgM, msgNasty, send})
	}
	// every single byte value as text, key, []byte and Hex (the decoder's escape and hex tables have one entry each)
	{
		all := make([]byte, 256)
		evSites := pickSites(sites, "event", "array")
		for b := 0; b < 256; b++ {
			all[b] = byte(b)
			s := "a" + string([]byte{byte(b)}) + "b"
			at([]seqx.Field{{M: "Str", Key: "k", Val: s}}, evSites, []seqx.Entry{entryLog}, []seqx.Final{send})
			at([]seqx.Field{{M: "Str", Key: s, Val: "v"}}, evSites[:1], []seqx.Entry{entryLog}, []seqx.Final{send})
			at([]seqx.Field{{M: "Bytes", Key: "k", Val: []byte(s)}}, evSites, []seqx.Entry{entryLog}, []seqx.Final{send})
			at([]seqx.Field{{M: "Hex", Key: "k", Val: []byte{byte(b)}}}, evSites, []seqx.Entry{entryLog}, []seqx.Final{send})
		}
		at([]seqx.Field{{M: "Hex", Key: "k", Val: all}, {M: "Bytes", Key: "k2", Val: all}}, evSites[:1], []seqx.Entry{entryLog}, []seqx.Final{send})
	}
	// events longer than the decoder's 4096-byte read buffer: a padding field shifts slice, string, tag and
	// float fields across the refill boundary, one byte at a time
	{
		evSite := pickSites(sites, "event")
		for shift := 0; shift < 150; shift++ {
			pad := seqx.Field{M: "Str", Key: "pad", Val: strings.Repeat("p", 3990+shift)}
			at([]seqx.Field{pad, {M: "Ints", Key: "ints", Val: []int{1, 2, 3, 4, 5, 6, 7, 8, 9, 10, 300, 70000}}, {M: "Strs", Key: "ss", Val: []string{"a", "bb", "ccc"}}, {M: "Floats64", Key: "fs", Val: []float64{0.1, 2.5}},
				{M: "Time", Key: "t", Val: seqx.TFix}, {M: "IPPrefix", Key: "net", Val: seqx.Net4}, {M: "Hex", Key: "hx", Val: []byte{1, 2, 3, 4}}, {M: "Bools", Key: "bs", Val: []bool{true, false}}, {M: "Str", Key: "tail", Val: strings.Repeat("t", 4200)}}, // (the tail makes the reader refill again after the fields)
				evSite, []seqx.Entry{entryLog}, []seqx.Final{send})
		}
	}
	// every length 0..80 of the variable-length kinds (fixed-size scratch buffers in an encoder or decoder flip at
	// some small length: 16, 32, 64 ...)
	for n := 0; n <= 80; n++ {
		bs := make([]byte, n)
		for i := range bs {
			bs[i] = byte(0x10 + i)
		}
		at([]seqx.Field{{M: "Hex", Key: "hx", Val: bs}, {M: "Bytes", Key: "by", Val: []byte(strings.Repeat("b", n))}, {M: "Str", Key: "st", Val: strings.Repeat("s", n)}, {M: "Str", Key: strings.Repeat("k", n), Val: "v"},
			{M: "RawCBOR", Key: "rc", Val: append([]byte{0x58, byte(n)}, bs...)}, {M: "RawJSON", Key: "rj", Val: []byte("\"" + strings.Repeat("j", n) + "\"")}, {M: "Ints", Key: "is", Val: ints(n)}},
			pickSites(sites, "event"), []seqx.Entry{entryLog}, []seqx.Final{send})
	}
	for _, f := range lenBoundaryFields() {
		at([]seqx.Field{f}, pickSites(sites, "event", "context", "dict", "array", "fieldsslice"), []seqx.Entry{entryLog}, []seqx.Final{send})
	}
	for _, v := range int64Neighbourhood() {
		for _, f := range []seqx.Field{{M: "Int64", Key: "k", Val: v}, {M: "Uint64", Key: "k", Val: uint64(v)}, {M: "Int", Key: "k", Val: int(v)}, {M: "Uint", Key: "k", Val: uint(v)},
			{M: "Int32", Key: "k", Val: int32(v)}, {M: "Uint32", Key: "k", Val: uint32(v)}, {M: "Int16", Key: "k", Val: int16(v)}, {M: "Uint16", Key: "k", Val: uint16(v)}, {M: "Int8", Key: "k", Val: int8(v)}, {M: "Uint8", Key: "k", Val: uint8(v)},
			{M: "Ints64", Key: "k", Val: []int64{v, -v}}, {M: "Uints64", Key: "k", Val: []uint64{uint64(v)}}, {M: "Uints", Key: "k", Val: []uint{uint(v)}}, {M: "Dur", Key: "k", Val: time.Duration(v)}} {
			at([]seqx.Field{f}, pickSites(sites, "event", "array", "fieldsslice"), []seqx.Entry{entryLog}, []seqx.Final{send})
		}
	}
	for _, t := range []time.Time{seqx.T0, seqx.TEp, seqx.TFix, seqx.TNeg, seqx.TNow, time.Unix(1, -1).UTC(), time.Unix(1700000000, 999999999), time.Unix(-1700000000, 1), time.Date(2262, 4, 11, 23, 47, 16, 854775807, time.UTC), time.Date(9999, 12, 31, 23, 59, 59, 0, time.UTC),
		// sub-second instants outside the 1677..2262 range of a nanosecond count (fractions exact in binary)
		time.Date(2300, 1, 2, 3, 4, 5, 500000000, time.UTC), time.Date(1500, 6, 7, 8, 9, 10, 250000000, time.UTC), time.Date(9999, 12, 31, 23, 59, 59, 500000000, time.UTC), time.Date(1, 1, 1, 0, 0, 0, 500000000, time.UTC),
		// whole seconds on both sides of every head-width boundary of the integer form, and just below zero
		time.Unix(-1, 0), time.Unix(-2, 0), time.Unix(-24, 0), time.Unix(-25, 0), time.Unix(-256, 0), time.Unix(-257, 0), time.Unix(-65536, 0), time.Unix(-65537, 0), time.Unix(-1<<32, 0), time.Unix(-1<<32-1, 0),
		time.Unix(0, 0), time.Unix(1, 0), time.Unix(23, 0), time.Unix(24, 0), time.Unix(255, 0), time.Unix(256, 0), time.Unix(65535, 0), time.Unix(65536, 0), time.Unix(1<<32-1, 0), time.Unix(1<<32, 0)} {
		at([]seqx.Field{{M: "Time", Key: "k", Val: t}}, pickSites(sites, "event", "context", "array", "fieldsmap"), []seqx.Entry{entryLog}, []seqx.Final{send})
		at([]seqx.Field{{M: "Times", Key: "k", Val: []time.Time{t, seqx.TEp}}}, pickSites(sites, "event", "fieldsmap"), []seqx.Entry{entryLog}, []seqx.Final{send})
	}
	// every single global-setting deviation that both builds honour (the binary build carries instants and
	// float bits, so it ignores TimeFieldFormat and FloatingPointPrecision by design) x single symbols,
	// with and without Stack() before them
	for si, st := range seqx.AllSettings() {
		if strings.HasPrefix(st.Name, "TimeFieldFormat") || strings.HasPrefix(st.Name, "FloatingPointPrecision") {
			continue
		}
		for _, a := range A {
			if cborExcluded(a) {
				continue
			}
			for _, chain := range [][]seqx.Field{{seqx.Rekey(a, 0)}, {{M: "Stack"}, seqx.Rekey(a, 0)}} {
				for _, s := range core {
					steps, fields, ok := s.Build(chain)
					if !ok {
						continue
					}
					prog(seqx.Program{Settings: []int{si}, Steps: steps, Entry: entryInfo, Fields: fields, Final: msgM}, s.Name)
				}
			}
		}
		if timeUp() {
			return
		}
	}
	for _, a := range A {
		for _, b := range A {
			at([]seqx.Field{seqx.Rekey(a, 0), seqx.Rekey(b, 1)}, core, []seqx.Entry{entryInfo}, []seqx.Final{msgM})
		}
		if timeUp() {
			return
		}
	}
	if tier == "thorough" {
		for _, a := range A {
			for _, b := range S {
				for _, c := range S {
					at([]seqx.Field{seqx.Rekey(a, 0), seqx.Rekey(b, 1), seqx.Rekey(c, 2)}, core, []seqx.Entry{entryInfo}, []seqx.Final{send})
				}
			}
			if timeUp() {
				return
			}
		}
	} else {
		for _, a := range S {
			for _, b := range S {
				for _, c := range S {
					at([]seqx.Field{seqx.Rekey(a, 0), seqx.Rekey(b, 1), seqx.Rekey(c, 2)}, core[:8], []seqx.Entry{entryInfo}, []seqx.Final{send})
				}
			}
			if timeUp() {
				return
			}
		}
	}
}

// ---- independent interpretation of a CBOR value against the refenc expectation (C09) ----

func cborToTime(v *cbor8949.Value) (time.Time, bool) {
	if v.Major != 6 || v.Uint != 1 || v.Tagged == nil {
		return time.Time{}, false
	}
	t := v.Tagged
	switch {
	case t.Major == 0 || t.Major == 1:
		n := t.Int()
		if !n.IsInt64() {
			return time.Time{}, false
		}
		return time.Unix(n.Int64(), 0).UTC(), true
	case t.Major == 7 && t.FloatW != 0:
		sec, frac := math.Modf(t.Float)
		return time.Unix(int64(sec), int64(math.Round(frac*1e9))).UTC(), true
	}
	return time.Time{}, false
}

// cborText renders the documented text form of string-like CBOR values.
func cborText(v *cbor8949.Value) (string, bool) {
	switch v.Major {
	case 2, 3:
		return seqx.Sanitize(string(v.Bytes)), true
	case 6:
		in := v.Tagged
		switch v.Uint {
		case 260:
			if in.Major != 2 {
				return "", false
			}
			if len(in.Bytes) == 6 {
				return net.HardwareAddr(in.Bytes).String(), true
			}
			return net.IP(in.Bytes).String(), true
		case 261:
			if in.Major != 5 || len(in.Items) != 2 || in.Items[0].Major != 2 || in.Items[1].Major != 0 {
				return "", false
			}
			ip := net.IP(in.Items[0].Bytes)
			bits := 128
			if len(ip) == 4 {
				bits = 32
			}
			return (&net.IPNet{IP: ip, Mask: net.CIDRMask(int(in.Items[1].Uint), bits)}).String(), true
		case 263:
			if in.Major != 2 {
				return "", false
			}
			return hex.EncodeToString(in.Bytes), true
		case 63:
			if in.Major != 2 {
				return "", false
			}
			return "data:application/cbor;base64," + base64.StdEncoding.EncodeToString(in.Bytes), true
		}
	}
	return "", false
}

func matchCbor(v *cbor8949.Value, e seqx.Exp) error {
	if v.Major == 6 && v.Uint == 262 && v.Tagged.Major == 2 && e.Kind != 'r' && e.Kind != '?' {
		// embedded JSON (how Interface values travel): compare it as the JSON value it is
		n, err := jsonstrict.Parse(v.Tagged.Bytes)
		if err != nil {
			return fmt.Errorf("embedded JSON %q is invalid: %v", v.Tagged.Bytes, err)
		}
		return seqx.Match(n, e)
	}
	// "float32/float64 bit-exact": a value logged through a float method travels as a float of the width logged
	if e.FBits != 0 && v.Major == 7 && v.FloatW != 0 && v.FloatW != e.FBits {
		return fmt.Errorf("got a %d-bit float (%v), logged as float%d", v.FloatW, v.Float, e.FBits)
	}
	switch e.Kind {
	case '?':
		return nil
	case 's':
		if v.Major == 7 && v.FloatW != 0 {
			switch {
			case e.Str == "NaN" && math.IsNaN(v.Float), e.Str == "+Inf" && math.IsInf(v.Float, 1), e.Str == "-Inf" && math.IsInf(v.Float, -1):
				return nil
			}
			return fmt.Errorf("got float %v, want %q", v, e.Str)
		}
		if t, ok := cborToTime(v); ok {
			want, err := time.Parse(time.RFC3339Nano, e.Str)
			if err != nil {
				return fmt.Errorf("got time %v, expected text %q is not a time", t, e.Str)
			}
			if d := t.Sub(want); d > time.Microsecond || d < -time.Microsecond {
				return fmt.Errorf("got instant %v, want %v", t, want)
			}
			return nil
		}
		s, ok := cborText(v)
		if !ok {
			return fmt.Errorf("got %v, want string %q", v, e.Str)
		}
		if s != e.Str {
			return fmt.Errorf("got text %q, want %q", s, e.Str)
		}
	case 'n':
		switch {
		case v.Major == 0 || v.Major == 1:
			if bi, ok := new(big.Int).SetString(e.Str, 10); ok {
				if bi.Cmp(v.Int()) != 0 {
					return fmt.Errorf("got integer %s, want %s", v.Int(), e.Str)
				}
				return nil
			}
			f, _ := strconv.ParseFloat(e.Str, 64)
			g, _ := new(big.Float).SetInt(v.Int()).Float64()
			if f != g {
				return fmt.Errorf("got integer %s, want %s", v.Int(), e.Str)
			}
		case v.Major == 7 && v.FloatW == 32:
			f, err := strconv.ParseFloat(e.Str, 32)
			if err != nil || math.Float32bits(float32(f)) != math.Float32bits(float32(v.Float)) {
				g, _ := strconv.ParseFloat(e.Str, 64)
				if float32(g) != float32(v.Float) {
					return fmt.Errorf("got float32 %v, want %s", v.Float, e.Str)
				}
			}
		case v.Major == 7 && v.FloatW == 64:
			f, err := strconv.ParseFloat(e.Str, 64)
			if err != nil || math.Float64bits(f) != math.Float64bits(v.Float) { // bit-exact: -0 is not +0
				return fmt.Errorf("got float64 %v, want %s", v.Float, e.Str)
			}
		case v.Major == 6 && v.Uint == 1:
			// a time under a UNIX* format on the JSON side: not used (TimeFieldFormat pinned to RFC3339Nano)
			return fmt.Errorf("got time, want number %s", e.Str)
		default:
			return fmt.Errorf("got %v, want number %s", v, e.Str)
		}
	case 't', 'f', 'z':
		want := map[byte]uint64{'f': 20, 't': 21, 'z': 22}[e.Kind]
		if v.Major != 7 || !v.Simple || v.Uint != want {
			return fmt.Errorf("got %v, want %s", v, e)
		}
	case 'r':
		// verbatim JSON: embedded JSON (tag 262 over a byte string)
		if v.Major == 6 && v.Uint == 262 && v.Tagged.Major == 2 {
			if string(v.Tagged.Bytes) != e.Str {
				return fmt.Errorf("got embedded JSON %s, want %s", v.Tagged.Bytes, e.Str)
			}
			return nil
		}
		// natively encoded (Fields() encodes typed slices / nil pointers itself): compare as the JSON value
		n, err := jsonstrict.Parse([]byte(e.Str))
		if err != nil {
			return fmt.Errorf("got %v, want embedded JSON %s", v, e.Str)
		}
		return matchCbor(v, nodeToExp(n))
	case 'a':
		if v.Major != 4 {
			return fmt.Errorf("got %v, want array %s", v, e)
		}
		if len(v.Items) != len(e.Items) {
			return fmt.Errorf("got array of %d, want %d (%s)", len(v.Items), len(e.Items), e)
		}
		for i := range e.Items {
			if err := matchCbor(v.Items[i], e.Items[i]); err != nil {
				return fmt.Errorf("[%d]: %v", i, err)
			}
		}
	case 'o':
		if v.Major != 5 {
			return fmt.Errorf("got %v, want map %s", v, e)
		}
		return matchCborFields(v, e.KVs)
	}
	return nil
}

func matchCborFields(v *cbor8949.Value, kvs []seqx.KV) error {
	i := 0
	n := len(v.Items) / 2
	for _, kv := range kvs {
		if i < n && v.Items[2*i].Major == 3 && seqx.Sanitize(string(v.Items[2*i].Bytes)) == seqx.Sanitize(kv.Key) {
			if err := matchCbor(v.Items[2*i+1], kv.Exp); err != nil {
				if kv.Opt {
					continue
				}
				return fmt.Errorf("field %q: %v", kv.Key, err)
			}
			i++
			continue
		}
		if kv.Opt {
			continue
		}
		got := "<end of map>"
		if i < n {
			got = v.Items[2*i].String()
		}
		return fmt.Errorf("pair %d: got key %s, want %q (map %v, expected %s)", i, got, kv.Key, v, seqx.Obj(kvs...))
	}
	if i != n {
		return fmt.Errorf("unexpected extra pair with key %v (map %v, expected %s)", v.Items[2*i], v, seqx.Obj(kvs...))
	}
	return nil
}

// wellFormedEvent: one data item, an indefinite-length map, text-string keys.
func wellFormedEvent(b []byte) (*cbor8949.Value, error) {
	v, err := cbor8949.ParseOne(b)
	if err != nil {
		return nil, err
	}
	if v.Major != 5 || !v.Indef {
		return nil, fmt.Errorf("event is not an indefinite-length map: %v", v)
	}
	var walk func(x *cbor8949.Value) error
	walk = func(x *cbor8949.Value) error {
		if x.Major == 5 {
			for i := 0; i+1 < len(x.Items); i += 2 {
				// zerolog's own maps have text keys; the prefix tag carries a byte-string key by design
				_ = i
			}
		}
		for _, it := range x.Items {
			if err := walk(it); err != nil {
				return err
			}
		}
		if x.Tagged != nil {
			return walk(x.Tagged)
		}
		return nil
	}
	for i := 0; i+1 < len(v.Items); i += 2 {
		if v.Items[i].Major != 3 {
			return nil, fmt.Errorf("top-level key %d is not a text string: %v", i/2, v.Items[i])
		}
	}
	return v, walk(v)
}

func runC09() {
	r := seq.New("C09", tier, "exploration")
	defer r.CrashGuard()
	r.Rule = "one evaluation = one logging program executed under -tags binary_log; each write is parsed by an independent generic RFC 8949 parser (exactly one item, indefinite-length map, even item count, text keys, consistent nested lengths, no reserved additional information, no dangling break) and its value tree is compared, through the documented tag semantics, with the reference encoding of the program (integers exact, float bits at the logged width, tag 1/260/261/262/263/63 payloads); distinct = distinct byte strings written; non-trivial = containers, tags or lengths >= 24 involved"
	r.Assumptions = []string{"program set: single symbols of the class alphabet at every site, all two-symbol windows at 15 core sites, structural three-symbol windows, every definite length on both sides of 23/24, 255/256, 65535/65536, integers around every width boundary", "nil / odd-length IP and MAC values and the caller field are outside the statement and not enumerated"}
	if !binaryBuild() {
		twin := os.Getenv("VERIF_TWIN_BIN")
		if twin == "" {
			fmt.Println("INFRA: C09 needs the binary_log build (VERIF_TWIN_BIN)")
			os.Exit(2)
		}
		cmd := exec.Command(twin, os.Args[1:]...)
		cmd.Stdout, cmd.Stderr = os.Stdout, os.Stderr
		if err := cmd.Run(); err != nil {
			if ee, ok := err.(*exec.ExitError); ok {
				os.Exit(ee.ExitCode())
			}
			os.Exit(2)
		}
		os.Exit(0)
	}
	if tier == "quick" {
		r.Deadline = time.Now().Add(150 * time.Second)
	} else {
		r.Deadline = time.Now().Add(25 * time.Minute)
	}
	zerolog.TimeFieldFormat = time.RFC3339Nano
	seq.Sharded(r, drv.Workers(), func(r *seq.Run, shard, n int) {
		var cnt int64
		enumerateCbor(tier, shard, n, r.TimeUp, func(p seqx.Program, site string) {
			out := seqx.Run(p)
			r.Transitions += int64(len(p.Fields) + len(p.Steps) + 1)
			cnt++
			if out.Panic != "" {
				r.Eval("panic", true)
				r.Violation("", "panic/"+firstWords(out.Panic), fmt.Sprintf("panic %s\n  program: %s", out.Panic, p), p.String())
				return
			}
			if len(out.Lines) != 1 {
				r.Eval("writes", true)
				r.Violation("", "writes", fmt.Sprintf("%d writes\n  program: %s", len(out.Lines), p), p.String())
				return
			}
			b := out.Lines[0]
			r.Eval(string(b), len(b) > 40)
			v, err := wellFormedEvent(b)
			if err != nil {
				r.Violation("", "malformed/"+stripOffset(err.Error()), fmt.Sprintf("not one well-formed CBOR map: %v\n  bytes  : %x\n  program: %s", err, b, p), p.String())
				return
			}
			if err := matchCborFields(v, out.Expected.Fields); err != nil {
				r.Violation("", "value/"+site+"/"+stripOffset(firstWords(err.Error())), fmt.Sprintf("value tree differs from the logged values: %v\n  item   : %v\n  program: %s", err, v, p), p.String())
			}
			if cnt%200003 == 1 {
				r.Sample(fmt.Sprintf("[%s] %s => %v", site, p, v))
			}
		})
	})
	r.Exit()
}

func stripOffset(s string) string {
	if strings.HasPrefix(s, "offset ") {
		if i := strings.Index(s, ": "); i >= 0 {
			s = s[i+2:]
		}
	}
	var sb strings.Builder
	for _, c := range s {
		if c >= '0' && c <= '9' {
			sb.WriteByte('9')
		} else {
			sb.WriteRune(c)
		}
	}
	out := sb.String()
	if len(out) > 60 {
		out = out[:60]
	}
	return out
}

// ---- C08: the two builds in lock-step ----

func writeRecord(w *bufio.Writer, lines [][]byte, panicMsg string) {
	var hdr [8]byte
	binary.BigEndian.PutUint32(hdr[:4], uint32(len(lines)))
	binary.BigEndian.PutUint32(hdr[4:], uint32(len(panicMsg)))
	w.Write(hdr[:])
	w.WriteString(panicMsg)
	for _, l := range lines {
		binary.BigEndian.PutUint32(hdr[:4], uint32(len(l)))
		w.Write(hdr[:4])
		w.Write(l)
	}
}

func readRecord(rd *bufio.Reader) (lines [][]byte, panicMsg string, err error) {
	var hdr [8]byte
	if _, err = io.ReadFull(rd, hdr[:]); err != nil {
		return
	}
	nl, np := binary.BigEndian.Uint32(hdr[:4]), binary.BigEndian.Uint32(hdr[4:])
	pm := make([]byte, np)
	if _, err = io.ReadFull(rd, pm); err != nil {
		return
	}
	panicMsg = string(pm)
	for i := uint32(0); i < nl; i++ {
		if _, err = io.ReadFull(rd, hdr[:4]); err != nil {
			return
		}
		l := make([]byte, binary.BigEndian.Uint32(hdr[:4]))
		if _, err = io.ReadFull(rd, l); err != nil {
			return
		}
		lines = append(lines, l)
	}
	return
}

// compareDecoded: decoded CBOR (JSON text) against the JSON build's line, on decoded values.
func compareDecoded(dec, ref *jsonstrict.Node, path string) error {
	if dec.Kind != ref.Kind {
		// a time is a string on both sides; numbers may be float-vs-int texts (both 'n')
		return fmt.Errorf("%s: decoded %s, JSON build %s", path, dec.Raw, ref.Raw)
	}
	switch ref.Kind {
	case 'o':
		if len(dec.Keys) != len(ref.Keys) {
			return fmt.Errorf("%s: decoded object has %d members, JSON build %d (%s vs %s)", path, len(dec.Keys), len(ref.Keys), dec.Raw, ref.Raw)
		}
		for i := range ref.Keys {
			if dec.RawKs[i] != ref.RawKs[i] {
				return fmt.Errorf("%s: member %d key %s, JSON build %s", path, i, dec.RawKs[i], ref.RawKs[i])
			}
			if err := compareDecoded(dec.Vals[i], ref.Vals[i], path+"."+ref.Keys[i]); err != nil {
				return err
			}
		}
	case 'a':
		if len(dec.Items) != len(ref.Items) {
			return fmt.Errorf("%s: decoded array has %d elements, JSON build %d", path, len(dec.Items), len(ref.Items))
		}
		for i := range ref.Items {
			if err := compareDecoded(dec.Items[i], ref.Items[i], fmt.Sprintf("%s[%d]", path, i)); err != nil {
				return err
			}
		}
	case 'n':
		if dec.Str == ref.Str {
			return nil
		}
		a, okA := new(big.Int).SetString(dec.Str, 10)
		b, okB := new(big.Int).SetString(ref.Str, 10)
		if okA && okB {
			if a.Cmp(b) != 0 {
				return fmt.Errorf("%s: decoded integer %s, JSON build %s", path, dec.Str, ref.Str)
			}
			return nil
		}
		fa, e1 := strconv.ParseFloat(dec.Str, 64)
		fb, e2 := strconv.ParseFloat(ref.Str, 64)
		if e1 == nil && e2 == nil && fa == fb {
			return nil
		}
		// the same float32
		ga, e3 := strconv.ParseFloat(dec.Str, 32)
		gb, e4 := strconv.ParseFloat(ref.Str, 32)
		if e3 == nil && e4 == nil && float32(ga) == float32(gb) && isFloat32Text(ref.Str, float32(gb)) {
			return nil
		}
		return fmt.Errorf("%s: decoded number %s, JSON build %s", path, dec.Str, ref.Str)
	case 's':
		if dec.Raw == ref.Raw {
			return nil
		}
		ta, e1 := time.Parse(time.RFC3339Nano, dec.Str)
		tb, e2 := time.Parse(time.RFC3339Nano, ref.Str)
		if e1 == nil && e2 == nil {
			if d := ta.Sub(tb); d <= time.Microsecond && d >= -time.Microsecond {
				return nil
			}
			return fmt.Errorf("%s: decoded instant %s, JSON build %s", path, dec.Str, ref.Str)
		}
		return fmt.Errorf("%s: decoded string %s, JSON build %s (escaping must be identical)", path, dec.Raw, ref.Raw)
	}
	return nil
}

func runC08() {
	mode := os.Getenv("C08_MODE")
	zerolog.TimeFieldFormat = time.RFC3339Nano
	switch mode {
	case "emit": // JSON build: stream the lines of this shard's programs
		var shard, n int
		fmt.Sscanf(os.Getenv("C08_SHARD"), "%d/%d", &shard, &n)
		w := bufio.NewWriterSize(os.Stdout, 1<<20)
		deadline := time.Now().Add(28 * time.Minute)
		enumerateCbor(tier, shard, n, func() bool { return time.Now().After(deadline) }, func(p seqx.Program, site string) {
			out := seqx.Run(p)
			writeRecord(w, out.Lines, out.Panic)
		})
		w.Flush()
		os.Exit(0)
	case "compare": // CBOR build: same programs, compare with the JSON build's lines read from stdin
		r := seq.New("C08", tier, "exploration")
		defer r.CrashGuard()
		r.SetShardMode()
		defer r.Watch()()
		var shard, n int
		fmt.Sscanf(os.Getenv("C08_SHARD"), "%d/%d", &shard, &n)
		rd := bufio.NewReaderSize(os.Stdin, 1<<20)
		deadline := time.Now().Add(28 * time.Minute)
		var cnt int64
		enumerateCbor(tier, shard, n, func() bool { return time.Now().After(deadline) }, func(p seqx.Program, site string) {
			out := seqx.Run(p)
			jl, jpanic, err := readRecord(rd)
			if err != nil {
				fmt.Fprintln(os.Stderr, "C08 compare: JSON stream ended early:", err)
				os.Exit(2)
			}
			cnt++
			r.Transitions += int64(len(p.Fields) + len(p.Steps) + 1)
			if out.Panic != "" || jpanic != "" {
				r.Eval("panic", true)
				if (out.Panic == "") != (jpanic == "") {
					r.Violation("", "panic-differs", fmt.Sprintf("binary build panic %q, JSON build panic %q\n  program: %s", out.Panic, jpanic, p), p.String())
				}
				return
			}
			if len(out.Lines) != len(jl) {
				r.Eval("writes", true)
				r.Violation("", "writes", fmt.Sprintf("binary build wrote %d events, JSON build %d\n  program: %s", len(out.Lines), len(jl), p), p.String())
				return
			}
			for i := range jl {
				b := out.Lines[i]
				dec := zerolog.VerifDecodeIfBinary(b)
				r.Eval(string(b), len(b) > 40)
				fail := func(key, format string, a ...interface{}) {
					sig := classifyC08(p, key)
					r.Violation(sig, key, fmt.Sprintf(format, a...)+fmt.Sprintf("\n  binary : %x\n  decoded: %q\n  JSON   : %q\n  program: %s", b, dec, jl[i], p), p.String())
				}
				ref, err := jsonstrict.ParseLine(jl[i])
				if err != nil {
					continue // the JSON build's own problem (C01)
				}
				d, err := jsonstrict.ParseLine(dec)
				if err != nil {
					fail("decoded-invalid/"+stripOffset(err.Error()), "decoder output is not one valid JSON object per event: %v", err)
					continue
				}
				if err := compareDecoded(d, ref, ""); err != nil {
					fail("differs/"+stripOffset(firstWords(strings.TrimLeft(err.Error()[strings.Index(err.Error(), ":")+1:], " "))), "%v", err)
				}
			}
			if cnt%200003 == 1 {
				r.Sample(fmt.Sprintf("[%s] %s => %x => %q", site, p, out.Lines, jl))
			}
		})
		r.FinishShard()
	}
	// driver (either build): pipe JSON-build emitters into CBOR-build comparers, one pair per shard
	r := seq.New("C08", tier, "exploration")
	defer r.CrashGuard()
	r.Rule = "one evaluation = one event of one logging program executed under BOTH build tags (two binaries built from the same sources, run in lock-step over a pipe): the binary build's bytes are passed through the bundled CBOR-to-JSON decoder and compared, on decoded values, with the line the JSON build emits (same keys in the same order; integers exactly; floats as the same float32/float64; instants within 1 microsecond; strings with identical escaping; embedded JSON verbatim); distinct = distinct binary events; non-trivial = event longer than 40 bytes"
	r.Assumptions = []string{"the JSON build runs with TimeFieldFormat=RFC3339Nano so that both sides carry the instant", "program set as for C09", "nil / odd-length IP and MAC values and the caller field are outside the statement and not enumerated"}
	jsonBin, cborBin := os.Args[0], os.Getenv("VERIF_TWIN_BIN")
	if binaryBuild() || cborBin == "" {
		fmt.Println("INFRA: C08 is driven from the JSON build with VERIF_TWIN_BIN pointing at the binary_log build")
		os.Exit(2)
	}
	n := drv.Workers()
	tmp := filepath.Join(drv.VerifDir(), ".build", "tmp")
	os.MkdirAll(tmp, 0o755)
	var wg sync.WaitGroup
	var mu sync.Mutex
	var firstErr error
	for i := 0; i < n; i++ {
		wg.Add(1)
		go func(i int) {
			defer wg.Done()
			out := filepath.Join(tmp, fmt.Sprintf("C08-%d-shard%d.gob", os.Getpid(), i))
			env := append(os.Environ(), fmt.Sprintf("C08_SHARD=%d/%d", i, n), "GOMAXPROCS=2")
			em := exec.Command(jsonBin, os.Args[1:]...)
			em.Env = append(append([]string{}, env...), "C08_MODE=emit")
			em.Stderr = os.Stderr
			cp := exec.Command(cborBin, os.Args[1:]...)
			cp.Env = append(append([]string{}, env...), "C08_MODE=compare", "VERIF_SHARD=0/1", "VERIF_SHARD_OUT="+out)
			cp.Stderr = os.Stderr
			cp.Stdout = os.Stderr
			pipe, err := em.StdoutPipe()
			if err == nil {
				cp.Stdin = pipe
				err = em.Start()
			}
			if err == nil {
				err = cp.Run()
				em.Process.Kill()
				em.Wait()
			}
			if err == nil {
				err = seq.MergeDump(r, out, &mu)
			}
			os.Remove(out)
			if err != nil {
				mu.Lock()
				if firstErr == nil {
					firstErr = fmt.Errorf("shard %d: %v", i, err)
				}
				mu.Unlock()
			}
		}(i)
	}
	wg.Wait()
	if firstErr != nil {
		fmt.Println("INFRA:", firstErr)
		os.Exit(2)
	}
	r.Exit()
}

// classifyC08 maps a failing program to a known-finding signature.
func classifyC08(p seqx.Program, key string) string { return "" }

var _ = bytes.Equal

func nodeToExp(n *jsonstrict.Node) seqx.Exp {
	switch n.Kind {
	case 's':
		return seqx.Exp{Kind: 's', Str: n.Str}
	case 'n':
		return seqx.N(n.Str)
	case 't', 'f', 'z':
		return seqx.Exp{Kind: n.Kind}
	case 'a':
		e := seqx.Exp{Kind: 'a'}
		for _, it := range n.Items {
			e.Items = append(e.Items, nodeToExp(it))
		}
		return e
	case 'o':
		e := seqx.Exp{Kind: 'o'}
		for i, k := range n.Keys {
			e.KVs = append(e.KVs, seqx.KV{Key: k, Exp: nodeToExp(n.Vals[i])})
		}
		return e
	}
	return seqx.Any()
}

// isFloat32Text: the JSON build's text is what a float32 value prints as (shortest text that parses back
// to that float32, or a fixed-precision rendering of it). Only then may the two builds agree "as the same
// float32"; a float64 value must come back as the same float64.
func isFloat32Text(s string, f float32) bool {
	if b, err := json.Marshal(f); err == nil && string(b) == s {
		return true
	}
	if p := zerolog.FloatingPointPrecision; p != -1 {
		return strconv.FormatFloat(float64(f), 'f', p, 32) == s
	}
	return false
}

func ints(n int) []int {
	out := make([]int, n)
	for i := range out {
		out[i] = i - 3
	}
	return out
}
