// Command c18 decides C18 (hlog keeps requests isolated and reports what was actually sent).
//   - Engine F: every sequence of <= 4 (quick) / 5 (thorough) ResponseWriter calls from
//     {WriteHeader(201), WriteHeader(404), Write(3 bytes), Write(empty), ReadFrom(5 bytes)} x every
//     answer of the underlying writer {accept all, accept fewer, error} x capability set
//     {basic, Flusher, full}, against a reference proxy (refproxy);
//   - Engine Q: every subset (<= 3) and order of the field handlers behind NewHandler, for requests
//     with pairwise distinct attribute values;
//   - Engine S: 2-3 requests served concurrently through such a chain over the instrumented zerolog,
//     yielding between every two handlers; every interleaving.
package main

import (
	"bufio"
	"context"
	"errors"
	"flag"
	"fmt"
	"io"
	"net"
	"net/http"
	"net/url"
	"os"
	"strings"
	"sync"
	"time"

	"github.com/rs/xid"
	"github.com/rs/zerolog"
	"github.com/rs/zerolog/hlog"
	"github.com/rs/zerolog/mcrt"

	"verif/drv"
	"verif/explore"
	"verif/oracle/jsonstrict"
	"verif/seq"
)

// ---------- fake ResponseWriters with scripted answers ----------

type under struct {
	hdr      http.Header
	codes    []int
	accepted int
	script   []int // answer per body call: 0 accept all, 1 accept one byte fewer, 2 error (nothing accepted), 3 error after one byte
	k        int
}

func (u *under) Header() http.Header { return u.hdr }
func (u *under) WriteHeader(c int)   { u.codes = append(u.codes, c) }
func (u *under) answer(n int) (int, error) {
	a := 0
	if u.k < len(u.script) {
		a = u.script[u.k]
	}
	u.k++
	switch a {
	case 1:
		if n > 0 {
			n--
		}
		u.accepted += n
		return n, nil
	case 2:
		return 0, errors.New("write failed")
	case 3:
		if n > 1 {
			n = 1
		}
		u.accepted += n
		return n, errors.New("write failed midway")
	}
	u.accepted += n
	return n, nil
}
func (u *under) Write(b []byte) (int, error) {
	if len(u.codes) == 0 {
		u.codes = append(u.codes, 200) // net/http sends 200 with the first body byte
	}
	return u.answer(len(b))
}

// flushed: net/http sends the header (200 unless set) at the first Flush.
func (u *under) flushed() {
	if len(u.codes) == 0 {
		u.codes = append(u.codes, 200)
	}
}

type flushUnder struct{ *under }

func (f flushUnder) Flush() { f.under.flushed() }

type fullUnder struct{ *under }

func (f fullUnder) Flush()                                       { f.under.flushed() }
func (f fullUnder) CloseNotify() <-chan bool                     { return nil }
func (f fullUnder) Hijack() (net.Conn, *bufio.ReadWriter, error) { return nil, nil, errors.New("no") }
func (f fullUnder) ReadFrom(r io.Reader) (int64, error) {
	b, _ := io.ReadAll(r)
	if len(f.under.codes) == 0 {
		f.under.codes = append(f.under.codes, 200)
	}
	n, err := f.under.answer(len(b))
	return int64(n), err
}

type rcall struct {
	kind string // wh201 wh404 w3 w0 rf5
}

var callKinds = []string{"wh201", "wh404", "wh103", "w3", "w0", "rf5", "fl"}

func proxyPart(r *seq.Run, tier string) {
	L := 4
	if tier == "thorough" {
		L = 5
	}
	for _, capset := range []string{"basic", "flusher", "full"} {
		var rec func(calls []string, script []int)
		method := "GET" // the request's method: what the writer accepted is reported whatever it is
		abort := false  // the handler leaves by panic(http.ErrAbortHandler) after its calls (the documented way to abort)
		run := func(calls []string, script []int) {
			u := &under{hdr: http.Header{}, script: script}
			var w http.ResponseWriter = u
			switch capset {
			case "flusher":
				w = flushUnder{u}
			case "full":
				w = fullUnder{u}
			}
			// reference model
			refStatus, refSize := 0, 0
			k := 0
			answered := func(n int) int {
				a := 0
				if k < len(script) {
					a = script[k]
				}
				k++
				switch a {
				case 1:
					if n > 0 {
						return n - 1
					}
					return 0
				case 2:
					return 0
				case 3:
					if n > 1 {
						return 1
					}
					return n
				}
				return n
			}
			for _, c := range calls {
				switch c {
				case "wh201":
					if refStatus == 0 {
						refStatus = 201
					}
				case "wh404":
					if refStatus == 0 {
						refStatus = 404
					}
				case "wh103": // an informational code is a WriteHeader like any other for the statement: the first one counts
					if refStatus == 0 {
						refStatus = 103
					}
				case "w3":
					if refStatus == 0 {
						refStatus = 200
					}
					refSize += answered(3)
				case "w0":
					if refStatus == 0 {
						refStatus = 200
					}
					refSize += answered(0)
				case "rf5":
					if refStatus == 0 {
						refStatus = 200
					}
					refSize += answered(5)
				case "fl": // Flush sends the header: an implicit 200 if none was set
					if refStatus == 0 {
						refStatus = 200
					}
				}
			}
			gotStatus, gotSize, called := -1, -1, 0
			h := hlog.AccessHandler(func(req *http.Request, status, size int, d time.Duration) {
				gotStatus, gotSize = status, size
				called++
			})(http.HandlerFunc(func(w http.ResponseWriter, req *http.Request) {
				for _, c := range calls {
					switch c {
					case "wh201":
						w.WriteHeader(201)
					case "wh404":
						w.WriteHeader(404)
					case "wh103":
						w.WriteHeader(103)
					case "w3":
						w.Write([]byte("abc"))
					case "w0":
						w.Write(nil)
					case "fl":
						if fl, ok := w.(http.Flusher); ok {
							fl.Flush()
						}
					case "rf5":
						if rf, ok := w.(io.ReaderFrom); ok {
							rf.ReadFrom(strings.NewReader("12345"))
						} else {
							w.Write([]byte("12345"))
						}
					}
				}
				if abort {
					panic(http.ErrAbortHandler)
				}
			}))
			req := &http.Request{Method: method, URL: &url.URL{Path: "/"}, Header: http.Header{}}
			// an earlier request served through the same middleware (status 404, 7 body bytes): whatever it leaves
			// behind - a recycled proxy, a package-level scratch value - must not colour this request's report
			{
				pu := &under{hdr: http.Header{}}
				var pw http.ResponseWriter = pu
				switch capset {
				case "flusher":
					pw = flushUnder{pu}
				case "full":
					pw = fullUnder{pu}
				}
				hlog.AccessHandler(func(*http.Request, int, int, time.Duration) {})(http.HandlerFunc(func(w http.ResponseWriter, req *http.Request) {
					w.WriteHeader(404)
					w.Write([]byte("zz"))
					if rf, ok := w.(io.ReaderFrom); ok {
						rf.ReadFrom(strings.NewReader("12345"))
					} else {
						w.Write([]byte("12345"))
					}
				})).ServeHTTP(pw, req)
			}
			func() {
				defer func() {
					if rec := recover(); rec != nil && rec != http.ErrAbortHandler {
						panic(rec)
					}
				}()
				h.ServeHTTP(w, req)
			}()
			r.Transitions += int64(len(calls))
			r.Eval(fmt.Sprint(capset, method, calls, script, abort, gotStatus, gotSize), len(script) > 0)
			wantStatus := refStatus
			if called != 1 || gotStatus != wantStatus || gotSize != refSize || gotSize != u.accepted {
				r.Violation("", fmt.Sprintf("proxy/%s/%v", capset, gotStatus == wantStatus), fmt.Sprintf("capabilities=%s method=%q calls=%v answers=%v abort=%v: AccessHandler reported (status=%d,size=%d) x%d, reference (status=%d,size=%d); underlying writer saw codes %v and accepted %d bytes", capset, method, calls, script, abort, gotStatus, gotSize, called, wantStatus, refSize, u.codes, u.accepted), fmt.Sprint(capset, method, calls, script, abort))
			}
			if len(u.codes) > 0 && wantStatus != 0 && u.codes[0] != wantStatus {
				r.Violation("", "proxy/forwarded-code", fmt.Sprintf("capabilities=%s calls=%v: the underlying writer was sent %v, the first WriteHeader/implicit 200 is %d", capset, calls, u.codes, wantStatus), fmt.Sprint(capset, calls))
			}
		}
		rec = func(calls []string, script []int) {
			run(calls, script)
			if len(calls) <= 2 {
				// what was sent before the handler aborted is reported all the same
				abort = true
				run(calls, script)
				abort = false
				// and under the other request methods (a HEAD response's body bytes are counted like any other's when
				// the underlying writer accepted them)
				for _, m := range []string{"HEAD", "POST", "OPTIONS", ""} {
					method = m
					run(calls, script)
				}
				method = "GET"
			}
			if len(calls) == L {
				return
			}
			for _, c := range callKinds {
				if c == "rf5" && capset != "full" {
					continue
				}
				if c == "fl" && capset == "basic" {
					continue
				}
				nc := append(append([]string{}, calls...), c)
				if strings.HasPrefix(c, "wh") {
					rec(nc, script)
				} else {
					for a := 0; a < 4; a++ {
						rec(nc, append(append([]int{}, script...), a))
					}
				}
			}
		}
		rec(nil, nil)
	}
	r.Sample("capabilities=full calls=[w3 wh404 rf5] answers=[1 3] -> status 200, size 2+1")
}

// ---------- field handlers ----------

type fh struct {
	name string
	mw   func(http.Handler) http.Handler
	key  string
	val  func(i int) string // expected value for request i ("" = no field)
}

func reqFor(i int) *http.Request {
	u, _ := url.Parse(fmt.Sprintf("/path%d?q=%d", i, i))
	r := &http.Request{Method: []string{"GET", "POST", "PUT"}[i%3], URL: u, Proto: fmt.Sprintf("HTTP/1.%d", i), Host: fmt.Sprintf("host%d.example:80%d", i, i),
		RemoteAddr: fmt.Sprintf("10.0.0.%d:%d", i+1, 1000+i), Header: http.Header{}}
	r.Header.Set("User-Agent", fmt.Sprintf("agent/%d", i))
	r.Header.Set("Referer", fmt.Sprintf("http://ref%d/", i))
	r.Header.Set("X-Custom", fmt.Sprintf("custom-%d", i))
	return r
}

func givenID(i int) xid.ID {
	var id xid.ID
	id[0], id[11] = 0x5f, byte(i+1)
	return id
}

func handlers() []fh {
	return []fh{
		{"URL", hlog.URLHandler("url"), "url", func(i int) string { return fmt.Sprintf("/path%d?q=%d", i, i) }},
		{"Method", hlog.MethodHandler("method"), "method", func(i int) string { return []string{"GET", "POST", "PUT"}[i%3] }},
		{"Request", hlog.RequestHandler("request"), "request", func(i int) string { return []string{"GET", "POST", "PUT"}[i%3] + fmt.Sprintf(" /path%d?q=%d", i, i) }},
		{"RemoteAddr", hlog.RemoteAddrHandler("ip"), "ip", func(i int) string { return fmt.Sprintf("10.0.0.%d:%d", i+1, 1000+i) }},
		{"RemoteIP", hlog.RemoteIPHandler("rip"), "rip", func(i int) string { return fmt.Sprintf("10.0.0.%d", i+1) }},
		{"UserAgent", hlog.UserAgentHandler("ua"), "ua", func(i int) string { return fmt.Sprintf("agent/%d", i) }},
		{"Referer", hlog.RefererHandler("referer"), "referer", func(i int) string { return fmt.Sprintf("http://ref%d/", i) }},
		{"Proto", hlog.ProtoHandler("proto"), "proto", func(i int) string { return fmt.Sprintf("HTTP/1.%d", i) }},
		{"HTTPVersion", hlog.HTTPVersionHandler("ver"), "ver", func(i int) string { return fmt.Sprintf("1.%d", i) }},
		{"CustomHeader", hlog.CustomHeaderHandler("custom", "X-Custom"), "custom", func(i int) string { return fmt.Sprintf("custom-%d", i) }},
		// header names are case-insensitive: a name configured in another spelling finds the same header
		{"CustomHeaderLC", hlog.CustomHeaderHandler("customlc", "x-cUSTOM"), "customlc", func(i int) string { return fmt.Sprintf("custom-%d", i) }},
		{"Host", hlog.HostHandler("host"), "host", func(i int) string { return fmt.Sprintf("host%d.example:80%d", i, i) }},
		{"HostTrim", hlog.HostHandler("hostt", true), "hostt", func(i int) string { return fmt.Sprintf("host%d.example", i) }},
		{"RequestID", hlog.RequestIDHandler("req_id", "x-req-ID"), "req_id", func(i int) string { return "*" }},
		// an upstream middleware has already put an id into the request context (hlog.CtxWithID): RequestIDHandler
		// keeps it - in the field, in the header and for IDFromRequest alike
		{"RequestIDGiven", func(next http.Handler) http.Handler {
			inner := hlog.RequestIDHandler("rid_given", "X-Rid-Given")(next)
			return http.HandlerFunc(func(w http.ResponseWriter, r *http.Request) {
				var i int
				fmt.Sscanf(r.URL.Path, "/path%d", &i)
				inner.ServeHTTP(w, r.WithContext(hlog.CtxWithID(r.Context(), givenID(i))))
			})
		}, "rid_given", func(i int) string { return givenID(i).String() }},
	}
}

type lineW struct{ lines []string }

func (w *lineW) Write(p []byte) (int, error) {
	w.lines = append(w.lines, string(p))
	return len(p), nil
}

type nullRW struct{ h http.Header }

func (n *nullRW) Header() http.Header         { return n.h }
func (n *nullRW) Write(b []byte) (int, error) { return len(b), nil }
func (n *nullRW) WriteHeader(int)             {}

// chain builds NewHandler(base) -> handlers (with an optional yield between them) -> final logging handler.
func chain(base zerolog.Logger, hs []fh, yield bool, tag func(r *http.Request) string) http.Handler {
	var h http.Handler = http.HandlerFunc(func(w http.ResponseWriter, r *http.Request) {
		if yield {
			mcrt.Point("before-final")
		}
		hlog.FromRequest(r).Info().Str("tag", tag(r)).Msg("done")
		hlog.FromRequest(r).Warn().Str("tag", tag(r)).Msg("again")
	})
	for i := len(hs) - 1; i >= 0; i-- {
		inner := h
		mw := hs[i].mw
		wrapped := mw(http.HandlerFunc(func(w http.ResponseWriter, r *http.Request) {
			if yield {
				mcrt.Point("between-handlers")
			}
			inner.ServeHTTP(w, r)
		}))
		h = wrapped
	}
	return hlog.NewHandler(base)(h)
}

// accessChain: NewHandler -> AccessHandler(log in the callback) -> URL -> Etag -> ResponseHeader -> final handler
// that sets per-request response headers and writes a per-request body.
func accessChain(base zerolog.Logger, yield bool) http.Handler {
	final := http.HandlerFunc(func(w http.ResponseWriter, r *http.Request) {
		var i int
		fmt.Sscanf(r.Header.Get("X-Tag"), "req%d", &i)
		if yield {
			mcrt.Point("final")
		}
		w.Header().Set("Etag", fmt.Sprintf(`"etag-%d"`, i))
		w.Header().Set("X-Resp", fmt.Sprintf("resp-%d", i))
		w.WriteHeader(200 + i)
		if yield {
			mcrt.Point("final-body")
		}
		w.Write([]byte(strings.Repeat("b", 3+i)))
	})
	var h http.Handler = final
	wrap := func(mw func(http.Handler) http.Handler) {
		inner := h
		h = mw(http.HandlerFunc(func(w http.ResponseWriter, r *http.Request) {
			if yield {
				mcrt.Point("between-handlers")
			}
			inner.ServeHTTP(w, r)
		}))
	}
	wrap(hlog.ResponseHeaderHandler("resp", "X-Resp"))
	wrap(hlog.EtagHandler("etag"))
	wrap(hlog.URLHandler("url"))
	wrap(hlog.AccessHandler(func(r *http.Request, status, size int, d time.Duration) {
		hlog.FromRequest(r).Info().Str("tag", r.Header.Get("X-Tag")).Int("status", status).Int("size", size).Msg("access")
	}))
	return hlog.NewHandler(base)(h)
}

func checkAccessLines(lines []string, nreq int) []string {
	var fails []string
	seen := map[int]int{}
	for _, l := range lines {
		root, err := jsonstrict.ParseLine([]byte(l))
		if err != nil {
			fails = append(fails, fmt.Sprintf("invalid JSON %q", l))
			continue
		}
		var i int
		if t := root.Get("tag"); len(t) == 1 {
			fmt.Sscanf(t[0].Str, "req%d", &i)
		}
		seen[i]++
		want := fmt.Sprintf(`{"level":"info","app":"base","url":"/path%d?q=%d","resp":"resp-%d","etag":"etag-%d","tag":"req%d","status":%d,"size":%d,"message":"access"}`+"\n", i, i, i, i, i, 200+i, 3+i)
		if l != want {
			fails = append(fails, fmt.Sprintf("request %d access event %q, want %q", i, l, want))
		}
	}
	for i := 0; i < nreq; i++ {
		if seen[i] != 1 {
			fails = append(fails, fmt.Sprintf("request %d: %d access events", i, seen[i]))
		}
	}
	return fails
}

func expectFields(hs []fh, i int) []string {
	var out []string
	for _, h := range hs {
		out = append(out, h.key+"="+h.val(i))
	}
	return out
}

// checkLines verifies that the events tagged for request i carry exactly its values.
func checkLines(lines []string, hs []fh, nreq int, hdrs []http.Header) []string {
	var fails []string
	seen := map[int]int{}
	ids := map[string]int{}
	for _, l := range lines {
		root, err := jsonstrict.ParseLine([]byte(l))
		if err != nil {
			fails = append(fails, fmt.Sprintf("invalid JSON %q: %v", l, err))
			continue
		}
		tagv := root.Get("tag")
		if len(tagv) != 1 {
			fails = append(fails, fmt.Sprintf("event without tag: %q", l))
			continue
		}
		var i int
		fmt.Sscanf(tagv[0].Str, "req%d", &i)
		seen[i]++
		// expected order: level, base field, handler fields in chain order, tag, message
		want := []string{"level", "app"}
		for _, h := range hs {
			want = append(want, h.key)
		}
		want = append(want, "tag", "message")
		if strings.Join(root.Keys, ",") != strings.Join(want, ",") {
			fails = append(fails, fmt.Sprintf("request %d: event has keys %v, want %v (%q)", i, root.Keys, want, l))
			continue
		}
		for k, h := range hs {
			got := root.Vals[2+k].Str
			w := h.val(i)
			if w == "*" {
				if got == "" || (hdrs != nil && hdrs[i].Get("X-Req-Id") != got) {
					fails = append(fails, fmt.Sprintf("request %d: req_id %q does not match its response header %q", i, got, hdrs[i].Get("X-Req-Id")))
				}
				if j, dup := ids[got]; dup && j != i {
					fails = append(fails, fmt.Sprintf("requests %d and %d share request id %q", i, j, got))
				}
				ids[got] = i
				continue
			}
			if got != w {
				fails = append(fails, fmt.Sprintf("request %d: field %s=%q, want %q (another request's value?) in %q", i, h.key, got, w, l))
			}
			if h.name == "RequestIDGiven" && hdrs != nil && hdrs[i].Get("X-Rid-Given") != w {
				fails = append(fails, fmt.Sprintf("request %d: response header X-Rid-Given=%q, want the id given upstream %q", i, hdrs[i].Get("X-Rid-Given"), w))
			}
		}
	}
	for i := 0; i < nreq; i++ {
		if seen[i] != 2 {
			fails = append(fails, fmt.Sprintf("request %d: %d events, want 2", i, seen[i]))
		}
	}
	return fails
}

func isolationSeq(r *seq.Run, tier string) {
	hs := handlers()
	var rec func(sel []int)
	maxLen := 3
	rec = func(sel []int) {
		if len(sel) > 0 {
			var chainHs []fh
			for _, i := range sel {
				chainHs = append(chainHs, hs[i])
			}
			w := &lineW{}
			base := zerolog.New(w).With().Str("app", "base").Logger()
			h := chain(base, chainHs, false, func(r *http.Request) string { return r.Header.Get("X-Tag") })
			hdrs := make([]http.Header, 2)
			for i := 0; i < 2; i++ {
				req := reqFor(i)
				req.Header.Set("X-Tag", fmt.Sprintf("req%d", i))
				rw := &nullRW{h: http.Header{}}
				h.ServeHTTP(rw, req)
				hdrs[i] = rw.h
			}
			fails := checkLines(w.lines, chainHs, 2, hdrs)
			before := len(w.lines)
			base.Info().Msg("probe")
			if len(w.lines) != before+1 || w.lines[before] != "{\"level\":\"info\",\"app\":\"base\",\"message\":\"probe\"}\n" {
				fails = append(fails, fmt.Sprintf("the logger passed to NewHandler changed: probe %q", w.lines[before:]))
			}
			r.Transitions += int64(2 * (len(sel) + 2))
			var names []string
			for _, c := range chainHs {
				names = append(names, c.name)
			}
			r.Eval(fmt.Sprint(names, w.lines), len(sel) > 1)
			if len(fails) > 0 {
				r.Violation("", "isolation-seq/"+names[0], fmt.Sprintf("handlers %v, two requests in sequence: %s", names, strings.Join(fails, "; ")), fmt.Sprint(names))
			}
		}
		if len(sel) == maxLen {
			return
		}
		for i := range hs {
			dup := false
			for _, s := range sel {
				if s == i {
					dup = true
				}
			}
			if !dup {
				rec(append(append([]int{}, sel...), i))
			}
		}
	}
	rec(nil)
	{
		w := &lineW{}
		base := zerolog.New(w).With().Str("app", "base").Logger()
		h := accessChain(base, false)
		for i := 0; i < 3; i++ {
			req := reqFor(i)
			req.Header.Set("X-Tag", fmt.Sprintf("req%d", i))
			h.ServeHTTP(&nullRW{h: http.Header{}}, req)
		}
		fails := checkAccessLines(w.lines, 3)
		r.Eval(fmt.Sprint("access", w.lines), true)
		if len(fails) > 0 {
			r.Violation("", "access-seq", "AccessHandler+URL+Etag+ResponseHeader, three requests in sequence: "+strings.Join(fails, "; "), "access")
		}
	}
	r.Sample("handlers [URL Method RequestID] x requests req0, req1 in sequence -> each event carries its own url/method/req_id; base logger unchanged")
}

// ---------- concurrent isolation (Engine S) ----------

type cinst struct {
	bigBase  bool // the logger given to NewHandler carries more than 500 bytes of context
	baseCtx  bool // the requests' contexts descend from one server-wide context that already carries a logger
	ctxProbe []string
	nreq     int
	hsel     []string
	w        *lineW
	done     []bool
	hdrs     []http.Header
	base     zerolog.Logger
	probe    []string
}

func pick(names []string) []fh {
	var out []fh
	for _, n := range names {
		for _, h := range handlers() {
			if h.name == n {
				out = append(out, h)
			}
		}
	}
	return out
}

func (c *cinst) appVal() string {
	if c.bigBase {
		return "base" + strings.Repeat("G", 600)
	}
	return "base"
}

func (c *cinst) Body() {
	c.w = &lineW{}
	c.base = zerolog.New(c.w).With().Str("app", c.appVal()).Logger()
	hs := pick(c.hsel)
	h := chain(c.base, hs, true, func(r *http.Request) string { return r.Header.Get("X-Tag") })
	if len(c.hsel) == 1 && c.hsel[0] == "ACCESS" {
		h = accessChain(c.base, true)
	}
	c.done = make([]bool, c.nreq)
	c.hdrs = make([]http.Header, c.nreq)
	var srvCtx context.Context
	if c.baseCtx {
		// what http.Server.BaseContext / ConnContext give every request: a context carrying the server's logger
		srvCtx = zerolog.New(c.w).With().Str("app", "srv").Logger().WithContext(context.Background())
	}
	for i := 0; i < c.nreq; i++ {
		i := i
		mcrt.GoNamed(fmt.Sprintf("req%d", i), false, func() {
			req := reqFor(i)
			if srvCtx != nil {
				req = req.WithContext(srvCtx)
			}
			req.Header.Set("X-Tag", fmt.Sprintf("req%d", i))
			rw := &nullRW{h: http.Header{}}
			h.ServeHTTP(rw, req)
			c.hdrs[i] = rw.h
			c.done[i] = true
		})
	}
	mcrt.Block("join", nil, func() bool {
		for _, d := range c.done {
			if !d {
				return false
			}
		}
		return true
	})
	before := len(c.w.lines)
	c.base.Info().Msg("probe")
	c.probe = append([]string{}, c.w.lines[before:]...)
	c.w.lines = c.w.lines[:before]
	if srvCtx != nil {
		zerolog.Ctx(srvCtx).Info().Msg("ctxprobe")
		c.ctxProbe = append([]string{}, c.w.lines[before:]...)
		c.w.lines = c.w.lines[:before]
	}
}

func (c *cinst) Digest() string {
	var tags []string
	for _, l := range c.w.lines {
		i := strings.Index(l, `"tag":"`)
		if i >= 0 {
			tags = append(tags, l[i+7:i+11])
		}
	}
	return strings.Join(tags, ",")
}

// ExtraKey: request ids are random (xid); they are left out of the state key.
func (c *cinst) ExtraKey() uint64 {
	var norm []string
	for _, l := range c.w.lines {
		if i := strings.Index(l, `"req_id":"`); i >= 0 {
			if j := strings.Index(l[i+10:], `"`); j >= 0 {
				l = l[:i+10] + "*" + l[i+10+j:]
			}
		}
		norm = append(norm, l)
	}
	return explore.HashStrings(norm...) ^ explore.HashStrings(fmt.Sprint(c.done))
}

func (c *cinst) Check(res *mcrt.Result) []explore.Violation {
	var vs []explore.Violation
	for _, p := range res.Panics {
		vs = append(vs, explore.Violation{Prop: "C18", Msg: "panic: " + strings.SplitN(p, "\n", 2)[0]})
	}
	if res.Deadlock {
		vs = append(vs, explore.Violation{Prop: "C18", Msg: fmt.Sprintf("deadlock %v", res.BlockedOn)})
	}
	if res.Capped {
		vs = append(vs, explore.Violation{Prop: "C18", Msg: fmt.Sprintf("execution did not finish within the step limit (%d steps)", res.Steps)})
	}
	if res.Capped || res.Deadlock || len(res.Panics) > 0 {
		return vs
	}
	fails := checkLines(c.w.lines, pick(c.hsel), c.nreq, c.hdrs)
	if len(c.hsel) == 1 && c.hsel[0] == "ACCESS" {
		fails = checkAccessLines(c.w.lines, c.nreq)
	}
	for _, f := range fails {
		vs = append(vs, explore.Violation{Prop: "C18", Msg: f})
		break
	}
	if len(c.probe) != 1 || c.probe[0] != "{\"level\":\"info\",\"app\":\""+c.appVal()+"\",\"message\":\"probe\"}\n" {
		vs = append(vs, explore.Violation{Prop: "C18", Msg: fmt.Sprintf("the logger passed to NewHandler changed: probe %q", c.probe)})
	}
	if c.baseCtx && (len(c.ctxProbe) != 1 || c.ctxProbe[0] != "{\"level\":\"info\",\"app\":\"srv\",\"message\":\"ctxprobe\"}\n") {
		vs = append(vs, explore.Violation{Prop: "C18", Msg: fmt.Sprintf("the logger carried by the server-wide base context changed: probe %q", c.ctxProbe)})
	}
	return vs
}

func factory(name string) *explore.Scenario {
	// "R<n>/<handler,handler,...>"
	var n int
	parts := strings.SplitN(name, "/", 2)
	if len(parts) != 2 {
		return nil
	}
	if _, err := fmt.Sscanf(parts[0], "R%d", &n); err != nil {
		return nil
	}
	sel := strings.Split(parts[1], ",")
	baseCtx := strings.HasSuffix(parts[0], "B")
	bigBase := strings.HasSuffix(parts[0], "G")
	return &explore.Scenario{Name: name, WriterProgress: true, New: func() explore.Instance { return &cinst{nreq: n, hsel: sel, baseCtx: baseCtx, bigBase: bigBase} },
		Setup: func() { zerolog.SetGlobalLevel(zerolog.TraceLevel) }}
}

// racePass: concurrent requests on real goroutines under -race.
func racePass() {
	runs := 0
	for _, sel := range [][]string{{"URL", "Method", "RequestID"}, {"RemoteAddr", "UserAgent", "CustomHeader", "CustomHeaderLC"}, {"Request", "RemoteIP", "Referer"}, {"Proto", "HTTPVersion", "Host", "HostTrim"}, {"ACCESS"}} {
		for rep := 0; rep < 200; rep++ {
			var mu sync.Mutex
			w := &lockedLines{mu: &mu}
			base := zerolog.New(w).With().Str("app", "base").Logger()
			h := chain(base, pick(sel), false, func(r *http.Request) string { return r.Header.Get("X-Tag") })
			if sel[0] == "ACCESS" {
				h = accessChain(base, false)
			}
			var wg sync.WaitGroup
			for i := 0; i < 4; i++ {
				i := i
				wg.Add(1)
				go func() {
					defer wg.Done()
					req := reqFor(i)
					req.Header.Set("X-Tag", fmt.Sprintf("req%d", i))
					h.ServeHTTP(&nullRW{h: http.Header{}}, req)
				}()
			}
			wg.Wait()
			runs++
		}
	}
	fmt.Printf("racepass runs=%d\n", runs)
	os.Exit(0)
}

type lockedLines struct {
	mu *sync.Mutex
	n  int
}

func (l *lockedLines) Write(p []byte) (int, error) {
	l.mu.Lock()
	l.n++
	l.mu.Unlock()
	return len(p), nil
}

func main() {
	drv.WorkerMain(factory)
	if os.Getenv("VERIF_RACEPASS") != "" {
		racePass()
	}
	tierF := flag.String("tier", "", "")
	flag.String("prop", "C18", "")
	flag.Parse()
	tier := drv.Tier(*tierF)
	r := seq.New("C18", tier, "model_checking")
	defer r.CrashGuard()
	r.Rule = "one evaluation = one history of ResponseWriter calls with scripted answers of the underlying writer through AccessHandler (against refproxy), or one chain of field handlers serving two requests in sequence, or one interleaving of 2-3 requests served concurrently through NewHandler + field handlers over the instrumented zerolog; states = distinct (configuration, outcome); non-trivial = a fault was injected / more than one handler / more than one request"
	r.Assumptions = []string{"requests are driven by calling the handler directly with fake ResponseWriters (no network)", "request ids come from xid and are compared with the response header and for distinctness only", "concurrent part: scheduling points between every two handlers, before the final logging handler, and at every pool/atomic operation of zerolog"}
	proxyPart(r, tier)
	r.Count("proxy_histories", r.Evals)
	isolationSeq(r, tier)
	var plans []drv.Plan
	scs := []string{"R2/ACCESS", "R2/URL,Method", "R2/RemoteAddr,UserAgent,RequestID", "R2/CustomHeader", "R3/URL", "R2/Host,Referer,Proto", "R3/Method,RequestID", "R2B/URL,Method", "R2B/ACCESS", "R2G/URL,Method", "R2G/UserAgent,Referer"}
	if tier == "thorough" {
		scs = append(scs, "R3/URL,Method,UserAgent", "R3/RemoteIP,HTTPVersion,HostTrim", "R2/Request,URL,Method")
	}
	for _, s := range scs {
		b := -1
		if strings.HasPrefix(s, "R3") {
			b = 4
			if tier == "thorough" {
				b = 6
			}
		}
		plans = append(plans, drv.Plan{Scenario: s, Bound: b, Cache: true, Single: true, MaxSteps: 20000})
	}
	stats, err := drv.ExploreAll(factory, plans, time.Now().Add(15*time.Minute))
	if err != nil {
		drv.InfraExit("C18", factory, stats, err, 20000)
	}
	var execs int64
	for _, st := range stats {
		execs += st.Execs
		r.Transitions += st.Steps
		for k := range st.Outcomes {
			r.Eval(st.Scenario+"|"+k, true)
		}
		r.Evals += st.Execs - int64(len(st.Outcomes))
		if !st.Exhaustive {
			r.Cap(st.Scenario + ":" + st.CapHit)
		}
		for _, s := range st.Samples {
			r.Sample(st.Scenario + ": " + s)
		}
		if os.Getenv("VERIF_VERBOSE") != "" {
			fmt.Printf("  %-40s execs=%d steps=%d pruned=%d outcomes=%d exh=%v\n", st.Scenario, st.Execs, st.Steps, st.Pruned, len(st.Outcomes), st.Exhaustive)
		}
	}
	r.Count("concurrent_executions", execs)
	out := drv.Classify("C18", factory, stats, 20000)
	r.AddExternal(out.Violations)
	runs, races, note, report, err := drv.RacePass("VERIF_RACE_BIN", "VERIF_RACEPASS")
	if err != nil {
		fmt.Println("INFRA:", err)
		os.Exit(2)
	}
	r.Extra["race_pass"] = map[string]interface{}{"note": note, "runs": runs, "races": races, "technique": "free-running goroutines under the Go race detector; dynamic analysis, not part of the exhaustive claim"}
	r.AddExternal(drv.ReportRace("C18", races, report))
	r.Exit()
}
