// Command c07 decides C07 (zero heap allocation on the documented fast paths): every chain of
// length <= 2 (quick) / 3 (thorough) over the allocation-free method set, on loggers with and
// without context / timestamp hook, enabled and level-filtered, measured with
// testing.AllocsPerRun after a warm-up, in the JSON build and (as a child process) the CBOR build.
package main

import (
	"context"
	"errors"
	"flag"
	"fmt"
	"math"
	"net"
	"os"
	"reflect"
	"runtime/debug"
	"strings"
	"testing"
	"time"

	"github.com/rs/zerolog"

	"verif/drv"
	"verif/seq"
)

type ptrObj struct{ a int }

func (p *ptrObj) MarshalZerologObject(e *zerolog.Event) { e.Int("a", p.a).Str("b", "x") }

var (
	vStrs                = []string{"a", "b"}
	vBytes               = []byte("bytes")
	vBools               = []bool{true, false}
	vInts                = []int{1, -2}
	vInts8               = []int8{1, -2}
	vInts16              = []int16{1, -2}
	vInts32              = []int32{1, -2}
	vInts64              = []int64{1, -2}
	vUints               = []uint{1, 2}
	vUints8              = []uint8{1, 2}
	vUints16             = []uint16{1, 2}
	vUints32             = []uint32{1, 2}
	vUints64             = []uint64{1, 2}
	vF32s                = []float32{1.5, 2.25}
	vF64s                = []float64{1.5, 1e21}
	vTime                = time.Date(2020, 1, 2, 3, 4, 5, 6, time.UTC)
	vTimes               = []time.Time{vTime, vTime}
	vDurs                = []time.Duration{time.Second, 3}
	vErr                 = errors.New("plain error")
	vObj                 = &ptrObj{7}
	vRaw                 = []byte(`{"r":1}`)
	vType    interface{} = 42
	vIP                  = net.IP{10, 0, 0, 1}
)

var (
	vEsc       = "q\"uote\\ back\nnew\ttab \x01ctl é😀 \xff invalid and then some more plain text"
	vLong      = strings.Repeat("long plain text ", 12)
	vStrsEsc   = []string{vEsc, "a\"b", "plain"}
	vBytesEsc  = []byte(vEsc)
	vBytesLong = []byte(strings.Repeat("0123456789abcdef", 6))
	vErrEsc    = errors.New(vEsc)
	vRawLong   = []byte(`{"r":[1,2,3,{"x":"` + strings.Repeat("y", 80) + `"}]}`)
	vTimeZone  = time.Date(2021, 3, 4, 5, 6, 7, 123456789, time.FixedZone("X", 3*3600+1800))
	vTimesZone = []time.Time{vTimeZone, vTime}
	vF32sExp   = []float32{1e-30, 3e30, 0.1}
	vIntsLong  = []int{-9223372036854775808, 9223372036854775807, 0, 1, 2, 3, 4, 5, 6, 7, 8, 9, 10, 11, 12, 13, 14, 15, 16, 17, 18, 19, 20, 21, 22, 23, 24, 25}
	vU64Big    = []uint64{1 << 63, 18446744073709551615}
	vDursMany  = []time.Duration{1, -1, time.Hour, 1500 * time.Microsecond, 0}
	vObjNested = &nestedObj{}
)

type nestedObj struct{}

func (*nestedObj) MarshalZerologObject(e *zerolog.Event) {
	e.Str("s", vEsc).Dict("d", zerolog.Dict().Int("i", 1)).Array("a", zerolog.Arr().Int(1).Str("x"))
}

func fn(e *zerolog.Event) { e.Str("in", "func") }

type method struct {
	name string
	f    func(e *zerolog.Event) *zerolog.Event
	arr  func(a *zerolog.Array) *zerolog.Array // element counterpart, if any
}

var (
	vStr20000      = strings.Repeat("s", 20000)
	vStr60000      = strings.Repeat("S", 60000)
	vBytes65000    = []byte(strings.Repeat("b", 65000))
	vEsc12000      = "q\"" + strings.Repeat("e", 12000)
	vEscBytes12000 = []byte("\n" + strings.Repeat("E", 12000))
	vF64sNaN       = []float64{math.NaN(), 1, math.Inf(1), math.Inf(-1)}
	vF32sNaN       = []float32{float32(math.NaN()), float32(math.Inf(1))}
)

func methods() []method {
	return []method{
		{"Str", func(e *zerolog.Event) *zerolog.Event { return e.Str("k", "v") }, func(a *zerolog.Array) *zerolog.Array { return a.Str("v") }},
		{"Strs", func(e *zerolog.Event) *zerolog.Event { return e.Strs("k", vStrs) }, nil},
		{"Bytes", func(e *zerolog.Event) *zerolog.Event { return e.Bytes("k", vBytes) }, func(a *zerolog.Array) *zerolog.Array { return a.Bytes(vBytes) }},
		{"Hex", func(e *zerolog.Event) *zerolog.Event { return e.Hex("k", vBytes) }, func(a *zerolog.Array) *zerolog.Array { return a.Hex(vBytes) }},
		{"Bool", func(e *zerolog.Event) *zerolog.Event { return e.Bool("k", true) }, func(a *zerolog.Array) *zerolog.Array { return a.Bool(true) }},
		{"Bools", func(e *zerolog.Event) *zerolog.Event { return e.Bools("k", vBools) }, nil},
		{"Int", func(e *zerolog.Event) *zerolog.Event { return e.Int("k", -5) }, func(a *zerolog.Array) *zerolog.Array { return a.Int(-5) }},
		{"Ints", func(e *zerolog.Event) *zerolog.Event { return e.Ints("k", vInts) }, nil},
		{"Int8", func(e *zerolog.Event) *zerolog.Event { return e.Int8("k", -5) }, func(a *zerolog.Array) *zerolog.Array { return a.Int8(-5) }},
		{"Ints8", func(e *zerolog.Event) *zerolog.Event { return e.Ints8("k", vInts8) }, nil},
		{"Int16", func(e *zerolog.Event) *zerolog.Event { return e.Int16("k", -500) }, func(a *zerolog.Array) *zerolog.Array { return a.Int16(-500) }},
		{"Ints16", func(e *zerolog.Event) *zerolog.Event { return e.Ints16("k", vInts16) }, nil},
		{"Int32", func(e *zerolog.Event) *zerolog.Event { return e.Int32("k", -70000) }, func(a *zerolog.Array) *zerolog.Array { return a.Int32(-70000) }},
		{"Ints32", func(e *zerolog.Event) *zerolog.Event { return e.Ints32("k", vInts32) }, nil},
		{"Int64", func(e *zerolog.Event) *zerolog.Event { return e.Int64("k", -1<<40) }, func(a *zerolog.Array) *zerolog.Array { return a.Int64(-1 << 40) }},
		{"Ints64", func(e *zerolog.Event) *zerolog.Event { return e.Ints64("k", vInts64) }, nil},
		{"Uint", func(e *zerolog.Event) *zerolog.Event { return e.Uint("k", 5) }, func(a *zerolog.Array) *zerolog.Array { return a.Uint(5) }},
		{"Uints", func(e *zerolog.Event) *zerolog.Event { return e.Uints("k", vUints) }, nil},
		{"Uint8", func(e *zerolog.Event) *zerolog.Event { return e.Uint8("k", 200) }, func(a *zerolog.Array) *zerolog.Array { return a.Uint8(200) }},
		{"Uints8", func(e *zerolog.Event) *zerolog.Event { return e.Uints8("k", vUints8) }, nil},
		{"Uint16", func(e *zerolog.Event) *zerolog.Event { return e.Uint16("k", 60000) }, func(a *zerolog.Array) *zerolog.Array { return a.Uint16(60000) }},
		{"Uints16", func(e *zerolog.Event) *zerolog.Event { return e.Uints16("k", vUints16) }, nil},
		{"Uint32", func(e *zerolog.Event) *zerolog.Event { return e.Uint32("k", 1<<31) }, func(a *zerolog.Array) *zerolog.Array { return a.Uint32(1 << 31) }},
		{"Uints32", func(e *zerolog.Event) *zerolog.Event { return e.Uints32("k", vUints32) }, nil},
		{"Uint64", func(e *zerolog.Event) *zerolog.Event { return e.Uint64("k", 1<<63) }, func(a *zerolog.Array) *zerolog.Array { return a.Uint64(1 << 63) }},
		{"Uints64", func(e *zerolog.Event) *zerolog.Event { return e.Uints64("k", vUints64) }, nil},
		{"Float32", func(e *zerolog.Event) *zerolog.Event { return e.Float32("k", 1.25) }, func(a *zerolog.Array) *zerolog.Array { return a.Float32(1.25) }},
		{"Floats32", func(e *zerolog.Event) *zerolog.Event { return e.Floats32("k", vF32s) }, nil},
		{"Float64", func(e *zerolog.Event) *zerolog.Event { return e.Float64("k", 1e-9) }, func(a *zerolog.Array) *zerolog.Array { return a.Float64(1e-9) }},
		{"Floats64", func(e *zerolog.Event) *zerolog.Event { return e.Floats64("k", vF64s) }, nil},
		{"Time", func(e *zerolog.Event) *zerolog.Event { return e.Time("k", vTime) }, func(a *zerolog.Array) *zerolog.Array { return a.Time(vTime) }},
		{"Times", func(e *zerolog.Event) *zerolog.Event { return e.Times("k", vTimes) }, nil},
		{"Dur", func(e *zerolog.Event) *zerolog.Event { return e.Dur("k", 1500*time.Microsecond) }, func(a *zerolog.Array) *zerolog.Array { return a.Dur(1500 * time.Microsecond) }},
		{"Durs", func(e *zerolog.Event) *zerolog.Event { return e.Durs("k", vDurs) }, nil},
		{"TimeDiff", func(e *zerolog.Event) *zerolog.Event { return e.TimeDiff("k", vTime.Add(time.Second), vTime) }, nil},
		{"Timestamp", func(e *zerolog.Event) *zerolog.Event { return e.Timestamp() }, nil},
		{"Err", func(e *zerolog.Event) *zerolog.Event { return e.Err(vErr) }, func(a *zerolog.Array) *zerolog.Array { return a.Err(vErr) }},
		{"AnErr", func(e *zerolog.Event) *zerolog.Event { return e.AnErr("k", vErr) }, nil},
		{"Dict", func(e *zerolog.Event) *zerolog.Event { return e.Dict("k", zerolog.Dict().Str("a", "b").Int("c", 1)) }, func(a *zerolog.Array) *zerolog.Array { return a.Dict(zerolog.Dict().Str("a", "b")) }},
		{"Array", func(e *zerolog.Event) *zerolog.Event { return e.Array("k", zerolog.Arr().Str("x").Int(1)) }, nil},
		{"Object", func(e *zerolog.Event) *zerolog.Event { return e.Object("k", vObj) }, func(a *zerolog.Array) *zerolog.Array { return a.Object(vObj) }},
		{"RawJSON", func(e *zerolog.Event) *zerolog.Event { return e.RawJSON("k", vRaw) }, func(a *zerolog.Array) *zerolog.Array { return a.RawJSON(vRaw) }},
		{"Type", func(e *zerolog.Event) *zerolog.Event { return e.Type("k", vType) }, nil},
		{"Func", func(e *zerolog.Event) *zerolog.Event { return e.Func(fn) }, nil},
		// the same methods with values of other classes: escapes, non-ASCII, invalid UTF-8, 40-200 bytes
		{"Str/esc", func(e *zerolog.Event) *zerolog.Event { return e.Str("k\"ey\n", vEsc) }, func(a *zerolog.Array) *zerolog.Array { return a.Str(vEsc) }},
		{"Str/long", func(e *zerolog.Event) *zerolog.Event { return e.Str("k", vLong) }, func(a *zerolog.Array) *zerolog.Array { return a.Str(vLong) }},
		{"Strs/esc", func(e *zerolog.Event) *zerolog.Event { return e.Strs("k", vStrsEsc) }, nil},
		{"Bytes/esc", func(e *zerolog.Event) *zerolog.Event { return e.Bytes("k", vBytesEsc) }, func(a *zerolog.Array) *zerolog.Array { return a.Bytes(vBytesEsc) }},
		{"Bytes/long", func(e *zerolog.Event) *zerolog.Event { return e.Bytes("k", vBytesLong) }, func(a *zerolog.Array) *zerolog.Array { return a.Bytes(vBytesLong) }},
		{"Hex/long", func(e *zerolog.Event) *zerolog.Event { return e.Hex("k", vBytesLong) }, func(a *zerolog.Array) *zerolog.Array { return a.Hex(vBytesLong) }},
		{"Err/esc", func(e *zerolog.Event) *zerolog.Event { return e.Err(vErrEsc) }, func(a *zerolog.Array) *zerolog.Array { return a.Err(vErrEsc) }},
		{"AnErr/esc", func(e *zerolog.Event) *zerolog.Event { return e.AnErr("k", vErrEsc) }, nil},
		{"RawJSON/long", func(e *zerolog.Event) *zerolog.Event { return e.RawJSON("k", vRawLong) }, func(a *zerolog.Array) *zerolog.Array { return a.RawJSON(vRawLong) }},
		{"Time/zone", func(e *zerolog.Event) *zerolog.Event { return e.Time("k", vTimeZone) }, func(a *zerolog.Array) *zerolog.Array { return a.Time(vTimeZone) }},
		{"Times/zone", func(e *zerolog.Event) *zerolog.Event { return e.Times("k", vTimesZone) }, nil},
		{"Float64/exp", func(e *zerolog.Event) *zerolog.Event { return e.Float64("k", 1.5e300) }, func(a *zerolog.Array) *zerolog.Array { return a.Float64(-2.5e-300) }},
		{"Float32/exp", func(e *zerolog.Event) *zerolog.Event { return e.Float32("k", 1e-30) }, func(a *zerolog.Array) *zerolog.Array { return a.Float32(3e30) }},
		{"Floats32", func(e *zerolog.Event) *zerolog.Event { return e.Floats32("k", vF32sExp) }, nil},
		{"Ints/long", func(e *zerolog.Event) *zerolog.Event { return e.Ints("k", vIntsLong) }, nil},
		{"Uints64/big", func(e *zerolog.Event) *zerolog.Event { return e.Uints64("k", vU64Big) }, nil},
		{"Durs/many", func(e *zerolog.Event) *zerolog.Event { return e.Durs("k", vDursMany) }, nil},
		{"Dict/nested", func(e *zerolog.Event) *zerolog.Event {
			return e.Dict("k", zerolog.Dict().Str("a", vEsc).Dict("in", zerolog.Dict().Int("c", 1)).Array("arr", zerolog.Arr().Str(vEsc).Dict(zerolog.Dict().Bool("b", true))))
		}, nil},
		// the empty / nil class of every container-ish method (early-return paths must still recycle)
		{"Array/empty", func(e *zerolog.Event) *zerolog.Event { return e.Array("k", zerolog.Arr()) }, nil},
		{"Dict/empty", func(e *zerolog.Event) *zerolog.Event { return e.Dict("k", zerolog.Dict()) }, func(a *zerolog.Array) *zerolog.Array { return a.Dict(zerolog.Dict()) }},
		{"Dict/emptyarr", func(e *zerolog.Event) *zerolog.Event {
			return e.Dict("k", zerolog.Dict().Array("a", zerolog.Arr()).Dict("d", zerolog.Dict()))
		}, nil},
		{"Str/empty", func(e *zerolog.Event) *zerolog.Event { return e.Str("", "") }, func(a *zerolog.Array) *zerolog.Array { return a.Str("") }},
		{"Strs/empty", func(e *zerolog.Event) *zerolog.Event { return e.Strs("k", []string{}).Strs("n", nil) }, nil},
		{"Bytes/empty", func(e *zerolog.Event) *zerolog.Event { return e.Bytes("k", []byte{}).Hex("n", nil) }, func(a *zerolog.Array) *zerolog.Array { return a.Bytes(nil).Hex([]byte{}) }},
		{"Ints/empty", func(e *zerolog.Event) *zerolog.Event {
			return e.Ints("k", []int{}).Uints8("n", nil).Floats64("f", nil).Bools("b", []bool{})
		}, nil},
		{"Times/empty", func(e *zerolog.Event) *zerolog.Event { return e.Times("k", []time.Time{}).Durs("n", nil) }, nil},
		{"Err/nil", func(e *zerolog.Event) *zerolog.Event { return e.Err(nil).AnErr("k", nil) }, nil}, // (Array.Err(nil) goes through AppendInterface: outside the statement's "plain error")
		{"RawJSON/empty", func(e *zerolog.Event) *zerolog.Event { return e.RawJSON("k", []byte("{}")) }, nil},
		{"Type/nil", func(e *zerolog.Event) *zerolog.Event { return e.Type("k", nil) }, nil},
		// values far larger than the 500-byte initial buffer but within the 64 KiB pooling threshold: once warm
		// the grown buffer is recycled (a buffer whose capacity landed exactly ON the threshold included)
		{"Str/big20000", func(e *zerolog.Event) *zerolog.Event { return e.Str("k", vStr20000) }, nil},
		{"Str/big60000", func(e *zerolog.Event) *zerolog.Event { return e.Str("k", vStr60000) }, nil},
		{"Bytes/big65000", func(e *zerolog.Event) *zerolog.Event { return e.Bytes("k", vBytes65000) }, nil},
		// an early byte that needs escaping followed by 12000 plain ones (encoded size far below the pooling threshold): an
		// encoder that reserves the worst case for the remainder outgrows the threshold and is never pooled again
		{"Str/bigesc12000", func(e *zerolog.Event) *zerolog.Event { return e.Str("k", vEsc12000) }, nil},
		{"Bytes/bigesc12000", func(e *zerolog.Event) *zerolog.Event { return e.Bytes("k", vEscBytes12000) }, nil},
		{"Str/bigesckey12000", func(e *zerolog.Event) *zerolog.Event { return e.Str(vEsc12000, "v") }, nil},
		// non-finite floats (rendered as strings), negative zero, integers at their extremes
		{"Float64/nan", func(e *zerolog.Event) *zerolog.Event { return e.Float64("k", math.NaN()).Float64("i", math.Inf(-1)) }, func(a *zerolog.Array) *zerolog.Array { return a.Float64(math.NaN()).Float64(math.Inf(1)) }},
		{"Float32/nan", func(e *zerolog.Event) *zerolog.Event {
			return e.Float32("k", float32(math.NaN())).Float32("i", float32(math.Inf(1)))
		}, func(a *zerolog.Array) *zerolog.Array { return a.Float32(float32(math.Inf(-1))) }},
		{"Floats/nan", func(e *zerolog.Event) *zerolog.Event { return e.Floats64("k", vF64sNaN).Floats32("l", vF32sNaN) }, nil},
		{"Float64/negzero", func(e *zerolog.Event) *zerolog.Event {
			return e.Float64("k", math.Copysign(0, -1)).Float32("l", float32(math.Copysign(0, -1)))
		}, nil},
		{"Int/extremes", func(e *zerolog.Event) *zerolog.Event {
			return e.Int64("k", math.MinInt64).Uint64("u", math.MaxUint64).Int8("b", -128)
		}, func(a *zerolog.Array) *zerolog.Array { return a.Int64(math.MinInt64).Uint64(math.MaxUint64) }},
		{"Dur/extremes", func(e *zerolog.Event) *zerolog.Event { return e.Dur("k", math.MaxInt64).Dur("z", 0).Dur("n", -1) }, func(a *zerolog.Array) *zerolog.Array { return a.Dur(math.MinInt64) }},
		{"Time/zero", func(e *zerolog.Event) *zerolog.Event { return e.Time("k", time.Time{}).Times("l", []time.Time{{}}) }, func(a *zerolog.Array) *zerolog.Array { return a.Time(time.Time{}) }},
		{"Object/nested", func(e *zerolog.Event) *zerolog.Event { return e.Object("k", vObjNested) }, func(a *zerolog.Array) *zerolog.Array { return a.Object(vObjNested) }},
	}
}

type nullW struct{ n int }

func (w *nullW) Write(p []byte) (int, error) { w.n++; return len(p), nil }

func main() {
	tierF := flag.String("tier", "", "")
	flag.String("prop", "C07", "")
	flag.Parse()
	tier := drv.Tier(*tierF)
	build := "json"
	if os.Getenv("C07_BUILD") != "" {
		build = os.Getenv("C07_BUILD")
	}
	r := seq.New("C07", tier, "exploration")
	defer r.CrashGuard()
	stopWatch := r.Watch()
	child := seq.ShardMode()
	if child {
		r.SetShardMode()
	}
	r.Rule = "one evaluation = one chain of <= 2 (quick) / 3 (thorough) methods of the allocation-free set (or Array element chains) on one logger configuration {bare, with context, with timestamp hook} x {enabled, level-filtered} in one build {JSON, CBOR}, measured with testing.AllocsPerRun(30) after a warm-up with the GC off; distinct = distinct (build, logger configuration, chain); non-trivial = chain of length >= 2 or containing Dict/Array/Object"
	r.Assumptions = []string{"a measurement: values keep the encoded event inside the pooled 500-byte buffer", "GC disabled during measurement (a collection empties sync.Pool and is the only noise source); race detector off", "TimestampFunc pinned"}
	zerolog.TimestampFunc = func() time.Time { return vTime }
	debug.SetGCPercent(-1)
	ms := methods()
	// the statement's set must exist in the API (reflection), else UNMAPPED
	et := reflect.TypeOf((*zerolog.Event)(nil))
	for _, m := range ms {
		if strings.Contains(m.name, "/") {
			continue
		}
		if _, ok := et.MethodByName(m.name); !ok {
			r.Extra["UNMAPPED:"+m.name] = "method named in the statement not found"
		}
	}
	w := &nullW{}
	type lcfg struct {
		name string
		lg   zerolog.Logger
		on   bool
	}
	var lcs []lcfg
	for _, on := range []bool{true, false} {
		lvl := zerolog.TraceLevel
		sfx := "/enabled"
		if !on {
			lvl = zerolog.ErrorLevel
			sfx = "/filtered"
		}
		lcs = append(lcs,
			lcfg{"bare" + sfx, zerolog.New(w).Level(lvl), on},
			lcfg{"context" + sfx, zerolog.New(w).With().Str("c", "ctx").Int("n", 1).Logger().Level(lvl), on},
			lcfg{"timestamp-hook" + sfx, zerolog.New(w).With().Timestamp().Logger().Level(lvl), on},
		)
	}
	// other ways of being filtered / disabled: the global level, a Disabled logger, Nop(), the logger the
	// library hands out for a context without one; and enabled loggers reached through Output / Level / a copy
	lcs = append(lcs,
		lcfg{"nop/filtered", zerolog.Nop(), false},
		lcfg{"disabled-level/filtered", zerolog.New(w).With().Str("c", "ctx").Logger().Level(zerolog.Disabled), false},
		lcfg{"ctx-default/filtered", *zerolog.Ctx(context.Background()), false},
		lcfg{"output-derived/enabled", zerolog.New(os.Stderr).With().Str("c", "ctx").Logger().Output(w).Level(zerolog.DebugLevel), true},
	)
	L := 2
	if tier == "thorough" {
		L = 3
	}
	measure := func(lc lcfg, chain []int, arr bool, final int) {
		f := func() {
			e := lc.lg.Info()
			if arr {
				a := zerolog.Arr()
				for _, i := range chain {
					a = ms[i].arr(a)
				}
				e = e.Array("arr", a)
			} else {
				for _, i := range chain {
					e = ms[i].f(e)
				}
			}
			if final == 0 {
				e.Msg("message")
			} else {
				e.Send()
			}
		}
		f()
		f()
		before := w.n
		allocs := testing.AllocsPerRun(30, f)
		writes := w.n - before
		name := ""
		nontrivial := len(chain) >= 2
		for _, i := range chain {
			name += "." + ms[i].name
			switch ms[i].name {
			case "Dict", "Array", "Object":
				nontrivial = true
			}
		}
		if arr {
			name = ".Array(Arr()" + name + ")"
		}
		fin := ".Msg"
		if final == 1 {
			fin = ".Send"
		}
		r.Eval(build+"|"+lc.name+"|"+name+fin, nontrivial)
		r.Transitions += int64(len(chain) + 1)
		if allocs != 0 {
			r.Violation("", fmt.Sprintf("allocs/%s/%v/%s", lc.name[len(lc.name)-8:], arr, culprit(ms, chain, lc, arr)), fmt.Sprintf("%s build, logger %s: Info()%s%s performs %.0f heap allocations per call (want 0)", build, lc.name, name, fin, allocs), name)
		}
		if !lc.on && writes != 0 {
			r.Violation("", "filtered-writes", fmt.Sprintf("%s build, logger %s: filtered chain %s wrote %d times", build, lc.name, name, writes), name)
		}
		if lc.on && writes != 31 {
			r.Violation("", "enabled-writes", fmt.Sprintf("%s build, logger %s: chain %s: %d writes in 31 runs", build, lc.name, name, writes), name)
		}
	}
	var rec func(chain []int, arr bool)
	rec = func(chain []int, arr bool) {
		if len(chain) > 0 {
			for _, lc := range lcs {
				measure(lc, chain, arr, len(chain)%2)
			}
		}
		if len(chain) == L {
			return
		}
		for i := range ms {
			if arr && ms[i].arr == nil {
				continue
			}
			if strings.Contains(ms[i].name, "/") && len(chain) >= 2 {
				continue // value-class variants: alone, and in every position of pairs
			}
			if strings.Contains(ms[i].name, "/big") {
				twoBig := false
				for _, j := range chain {
					if strings.Contains(ms[j].name, "/big") {
						twoBig = true
					}
				}
				if twoBig {
					continue // two large values together exceed the 64 KiB pooling threshold: outside the statement
				}
			}
			rec(append(append([]int{}, chain...), i), arr)
		}
	}
	rec(nil, false)
	rec(nil, true)
	for _, lc := range lcs {
		measure(lc, nil, false, 0)
		measure(lc, nil, false, 1)
	}
	// global format settings: every single deviation x every single method (event and array element):
	// the fast path must not depend on the default layout / unit / precision / field names
	type setting struct {
		name       string
		set, unset func()
	}
	settings := []setting{}
	for _, f := range []string{time.RFC1123, time.Kitchen, time.RFC3339Nano, "2006-01-02 15:04:05.000 MST", zerolog.TimeFormatUnix, zerolog.TimeFormatUnixMs, zerolog.TimeFormatUnixMicro, zerolog.TimeFormatUnixNano} {
		f := f
		settings = append(settings, setting{"TimeFieldFormat=" + f, func() { zerolog.TimeFieldFormat = f }, func() { zerolog.TimeFieldFormat = time.RFC3339 }})
	}
	settings = append(settings,
		setting{"DurationFieldUnit=s", func() { zerolog.DurationFieldUnit = time.Second }, func() { zerolog.DurationFieldUnit = time.Millisecond }},
		setting{"DurationFieldInteger", func() { zerolog.DurationFieldInteger = true }, func() { zerolog.DurationFieldInteger = false }},
		setting{"FloatingPointPrecision=3", func() { zerolog.FloatingPointPrecision = 3 }, func() { zerolog.FloatingPointPrecision = -1 }},
		setting{"field names", func() {
			zerolog.TimestampFieldName, zerolog.LevelFieldName, zerolog.MessageFieldName, zerolog.ErrorFieldName = "@t\"", "", "m\n", "err\\"
		}, func() {
			zerolog.TimestampFieldName, zerolog.LevelFieldName, zerolog.MessageFieldName, zerolog.ErrorFieldName = "time", "level", "message", "error"
		}},
	)
	saveL, saveLcs, saveBuild := L, lcs, build
	L = 1
	for _, st := range settings {
		st.set()
		build = saveBuild + "|" + st.name
		// loggers are rebuilt under the setting (Context.Timestamp and level hooks read the globals when they run)
		lcs = nil
		for _, on := range []bool{true, false} {
			lvl, sfx := zerolog.TraceLevel, "/enabled"
			if !on {
				lvl, sfx = zerolog.ErrorLevel, "/filtered"
			}
			lcs = append(lcs, lcfg{"context+timestamp" + sfx, zerolog.New(w).With().Str("c", "ctx").Timestamp().Logger().Level(lvl), on})
		}
		rec(nil, false)
		rec(nil, true)
		st.unset()
	}
	L, lcs, build = saveL, saveLcs, saveBuild
	r.Count("settings:"+build, int64(len(settings)))
	r.Sample(build + ` build, logger context/enabled: Info().Dict("k", Dict().Str("a","b").Int("c",1)).Time("k", t).Send() -> 0 allocs`)
	r.Count("methods:"+build, int64(len(ms)))
	if child {
		r.FinishShard()
	}
	stopWatch() // (the parent now only waits for the other build's process, which has its own watchdog)
	if bin := os.Getenv("C07_CBOR_BIN"); bin != "" {
		if err := seq.MergeChild(r, bin, os.Args[1:], "C07_BUILD=cbor"); err != nil {
			fmt.Println("INFRA:", err)
			os.Exit(2)
		}
	} else {
		r.Cap("cbor build not run (C07_CBOR_BIN unset)")
	}
	r.Exit()
}

// culprit names the method whose single-element chain already allocates, for deduplication.
func culprit(ms []method, chain []int, lc interface{}, arr bool) string {
	s := ""
	for _, i := range chain {
		s += ms[i].name + "."
	}
	if len(chain) > 1 {
		return "chain"
	}
	return s
}
