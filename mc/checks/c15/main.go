// Command c15 decides C15 (TriggerLevelWriter holds back, releases and orders lines as specified):
//   - every history of WriteLevel/Trigger/Close up to a length, for every ConditionalLevel/TriggerLevel
//     pair, on two writer instances used one after the other (pool reuse), in lock-step with a
//     reference model (reftrigger);
//   - Engine S: 2-3 threads x 1-2 operations, every interleaving; the destination's sequence must be
//     the model's output for some linearization consistent with the real-time order of the calls.
package main

import (
	"errors"
	"flag"
	"fmt"
	"strings"
	"time"

	"github.com/rs/zerolog"
	"github.com/rs/zerolog/mcrt"

	"verif/drv"
	"verif/explore"
	"verif/seq"
)

type rec struct {
	lvl    zerolog.Level
	hasLvl bool
	line   string
}

// ---- reference model, from the statement ----
type refTrigger struct {
	cond, trig zerolog.Level
	held       []rec
	triggered  bool
	out        []rec
}

func (m *refTrigger) write(l zerolog.Level, line string) {
	if !m.triggered && l >= m.trig {
		m.out = append(m.out, m.held...)
		m.held = nil
		m.triggered = true
	}
	if !m.triggered && l <= m.cond {
		m.held = append(m.held, rec{l, true, line})
		return
	}
	m.out = append(m.out, rec{l, true, line})
}
func (m *refTrigger) trigger() {
	if m.triggered {
		return
	}
	m.out = append(m.out, m.held...)
	m.held = nil
	m.triggered = true
}
func (m *refTrigger) close() { m.held = nil }

// ---- destinations ----
type levelDest struct {
	got    []rec
	yield  bool
	busy   int
	over   bool
	failAt int // 1-based index of the WriteLevel call that returns an error (0 = never)
	calls  int
	onRecv func() // called while a line is being received (a destination that itself logs through another writer)
}

func (d *levelDest) Write(p []byte) (int, error) {
	d.got = append(d.got, rec{0, false, string(p)})
	return len(p), nil
}
func (d *levelDest) WriteLevel(l zerolog.Level, p []byte) (int, error) {
	if d.busy > 0 {
		d.over = true
	}
	d.busy++
	s := string(p)
	if d.yield {
		mcrt.Point("dest.enter")
	}
	d.got = append(d.got, rec{l, true, s})
	if d.onRecv != nil {
		d.onRecv()
	}
	if d.yield {
		mcrt.Point("dest.exit")
	}
	d.busy--
	d.calls++
	if d.failAt != 0 && d.calls == d.failAt {
		return 0, errDest
	}
	return len(p), nil
}

var errDest = errors.New("destination failed")

type plainDest struct{ got []rec }

func (d *plainDest) Write(p []byte) (int, error) {
	d.got = append(d.got, rec{0, false, string(p)})
	return len(p), nil
}

var lineBodies = []string{"a", "", "\x00b\xff", `{"k":1}`, strings.Repeat("z", 40), "line five"}

func lineOf(inst, i int) string {
	body := lineBodies[i%len(lineBodies)]
	switch body {
	case "<bare>": // the empty line: nothing but the terminator (the shortest newline-terminated line there is)
		return "\n"
	case "<one>": // one byte and the terminator
		return string(rune('a'+i%26)) + "\n"
	}
	if strings.HasSuffix(body, "\r") { // a line ending in CR LF
		return fmt.Sprintf("%s#%d.%d\r\n", body[:len(body)-1], inst, i)
	}
	return fmt.Sprintf("%s#%d.%d\n", body, inst, i)
}

type op struct {
	kind string // w | trigger | close
	lvl  zerolog.Level
}

func (o op) String() string {
	if o.kind == "w" {
		return fmt.Sprintf("W(%d)", o.lvl)
	}
	return o.kind
}

func sameRecs(a, b []rec, levels bool) bool {
	if len(a) != len(b) {
		return false
	}
	for i := range a {
		if a[i].line != b[i].line {
			return false
		}
		if levels && (a[i].lvl != b[i].lvl) {
			return false
		}
	}
	return true
}

func fmtRecs(rs []rec) string {
	var sb strings.Builder
	for _, r := range rs {
		fmt.Fprintf(&sb, "(%d,%q)", r.lvl, r.line)
	}
	return sb.String()
}

func main() {
	drv.WorkerMain(factory)
	tierF := flag.String("tier", "", "")
	flag.String("prop", "C15", "")
	flag.Parse()
	tier := drv.Tier(*tierF)
	r := seq.New("C15", tier, "model_checking")
	defer r.CrashGuard()
	r.Rule = "one evaluation = one history of WriteLevel/Trigger/Close calls applied to two TriggerLevelWriter instances one after the other (so the second takes the first one's pooled buffer), executed on the real writer in lock-step with the reference model, or one interleaving of a concurrent scenario; distinct = distinct (levels, history, destination sequence); non-trivial = at least one line was held back"
	r.Assumptions = []string{"levels from {-128,-1,0,1,3,6,7,127} (never 10, the separator byte)", "lines end in exactly one newline and contain no interior newline", "sync.Pool modelled as a LIFO list under the scheduler"}
	L := 5
	if tier == "thorough" {
		L = 6
	}
	lvls := []zerolog.Level{-128, -1, 0, 1, 3, 6, 7, 127} // (6 = NoLevel, 7 = Disabled: levels like any other for a LevelWriter)
	var ops []op
	for _, l := range lvls {
		ops = append(ops, op{"w", l})
	}
	ops = append(ops, op{"trigger", 0}, op{"close", 0})
	pairs := []zerolog.Level{-1, 0, 1, 3, 127}
	r.Deadline = time.Now().Add(12 * time.Minute)
	seq.Sharded(r, drv.Workers(), func(r *seq.Run, shard, nshards int) {
		var hidx int64
		for _, cl := range pairs {
			for _, tl := range pairs {
				for _, plain := range []bool{false, true} {
					if plain && tier == "quick" && !(cl == 0 && tl == 3 || cl == 3 && tl == 1) {
						continue
					}
					idx := make([]int, L)
					for {
						hist := make([]op, L)
						for i := range hist {
							hist[i] = ops[idx[i]]
						}
						hidx++
						if hidx%int64(nshards) == int64(shard) {
							runHistory(r, cl, tl, plain, hist)
						}
						k := L - 1
						for k >= 0 {
							idx[k]++
							if idx[k] < len(ops) {
								break
							}
							idx[k] = 0
							k--
						}
						if k < 0 {
							break
						}
					}
					if r.TimeUp() {
						break
					}
				}
			}
		}
		r.Count("sequential_histories", r.Evals)
		// every level except 10 (the separator byte), held and released: whatever byte a level is stored as must not
		// collide with the separator
		{
			before := r.Evals
			for l := -128; l <= 127; l++ {
				if l == 10 {
					continue
				}
				hidx++
				if hidx%int64(nshards) != int64(shard) {
					continue
				}
				lv := zerolog.Level(l)
				for _, pair := range [][2]zerolog.Level{{127, 127}, {126, 127}} {
					runHistory(r, pair[0], pair[1], false, []op{{"w", lv}, {"w", lv}, {"trigger", 0}, {"w", lv}, {"close", 0}})
					runHistory(r, pair[0], pair[1], true, []op{{"w", lv}, {"w", 0}, {"w", lv}, {"trigger", 0}})
				}
			}
			r.Count("level_sweep_histories", r.Evals-before)
		}
		// unusual line contents: a line ending in CR LF, a lone CR inside, a 70000-byte line (beyond any 64 KiB
		// scanner or pooling limit), a line with nothing before its marker, the bare "\\n" and a one-byte line - all histories of 4 operations for three level pairs
		{
			before := r.Evals
			saved := lineBodies
			lineBodies = []string{"cr\r", "<bare>", strings.Repeat("B", 70000), "<one>", "in\rside", "", "tab\tx\v\f"}
			L3 := 4
			for _, pair := range [][2]zerolog.Level{{0, 3}, {3, 1}, {1, 1}} {
				idx := make([]int, L3)
				for {
					hist := make([]op, L3)
					for i := range hist {
						hist[i] = ops[idx[i]]
					}
					hidx++
					if hidx%int64(nshards) == int64(shard) {
						runHistory(r, pair[0], pair[1], false, hist)
					}
					k := L3 - 1
					for k >= 0 {
						idx[k]++
						if idx[k] < len(ops) {
							break
						}
						idx[k] = 0
						k--
					}
					if k < 0 {
						break
					}
				}
			}
			lineBodies = saved
			r.Count("unusual_line_histories", r.Evals-before)
		}
		// the same histories with the buffer-reuse limit below every buffer's capacity (what a writer that once
		// held more than 64 KiB sees): Close must still drop what was held
		{
			before := r.Evals
			oldLimit := zerolog.TriggerLevelWriterBufferReuseLimit
			zerolog.TriggerLevelWriterBufferReuseLimit = 16
			for _, pair := range [][2]zerolog.Level{{0, 3}, {3, 1}, {1, 1}} {
				idx := make([]int, L)
				for {
					hist := make([]op, L)
					for i := range hist {
						hist[i] = ops[idx[i]]
					}
					hidx++
					if hidx%int64(nshards) == int64(shard) {
						runHistory(r, pair[0], pair[1], false, hist)
					}
					k := L - 1
					for k >= 0 {
						idx[k]++
						if idx[k] < len(ops) {
							break
						}
						idx[k] = 0
						k--
					}
					if k < 0 {
						break
					}
				}
			}
			zerolog.TriggerLevelWriterBufferReuseLimit = oldLimit
			r.Count("no_reuse_histories", r.Evals-before)
		}
		// destination failures: the statement does not say what a failing destination does to the held lines,
		// but "no line is duplicated or altered" and "held lines in their original order" hold for every history: with
		// one failing destination call, every received line is one that was written, at most once, held ones in order
		{
			L2 := 5
			before := r.Evals
			for _, pair := range [][2]zerolog.Level{{0, 3}, {3, 1}, {1, 1}} {
				for failAt := 1; failAt <= 3; failAt++ {
					idx := make([]int, L2)
					for {
						hist := make([]op, L2)
						for i := range hist {
							hist[i] = ops[idx[i]]
						}
						hidx++
						if hidx%int64(nshards) == int64(shard) {
							runFaultHistory(r, pair[0], pair[1], failAt, hist)
						}
						k := L2 - 1
						for k >= 0 {
							idx[k]++
							if idx[k] < len(ops) {
								break
							}
							idx[k] = 0
							k--
						}
						if k < 0 {
							break
						}
					}
				}
			}
			r.Count("fault_histories", r.Evals-before)
		}
	})
	if seq.ShardMode() {
		return
	}

	// concurrent part
	var plans []drv.Plan
	scs := []string{"T2/w0,w3/c0t3", "T2/w0w0,w3/c0t3", "T2/w0,trigger/c0t3", "T2/w0w3,w0close/c0t3", "T3/w0,w3,w0/c0t3", "T2/w1w3,w0w5/c1t3", "T3/w0,trigger,w0/c0t3"}
	if tier == "thorough" {
		scs = append(scs, "T3/w0w3,w0,trigger/c0t3", "T3/w0w0,w3w0,w0/c0t3", "T2/w0w3w0,w0closew3/c0t3")
	}
	for _, s := range scs {
		plans = append(plans, drv.Plan{Scenario: s, Bound: -1, Cache: true, Single: true, MaxSteps: 3000})
	}
	stats, err := drv.ExploreAll(factory, plans, time.Now().Add(10*time.Minute))
	if err != nil {
		drv.InfraExit("C15", factory, stats, err, 3000)
	}
	var execs int64
	for _, st := range stats {
		execs += st.Execs
		r.Transitions += st.Steps
		for k := range st.Outcomes {
			r.Eval(st.Scenario+"|"+k, true)
		}
		r.Evals += st.Execs - int64(len(st.Outcomes))
		if !st.Exhaustive {
			r.Cap(st.Scenario + ":" + st.CapHit)
		}
		for _, s := range st.Samples {
			if len(r.Samples) < 8 {
				r.Sample(st.Scenario + ": " + s)
			}
		}
	}
	r.Count("concurrent_executions", execs)
	out := drv.Classify("C15", factory, stats, 3000)
	r.AddExternal(out.Violations)
	r.Exit()
}

func runHistory(r *seq.Run, cl, tl zerolog.Level, plain bool, hist []op) {
	// instance 0 runs the history alone and is closed (its buffer goes back to the pool); instances 1 and 2
	// are then open AT THE SAME TIME and run the same history in alternation (each must have its own buffer)
	var gots [3][]rec
	var wants [3][]rec
	heldAny := false
	res := mcrt.Run(mcrt.Config{}, func() {
		type instance struct {
			w  *zerolog.TriggerLevelWriter
			ld *levelDest
			pd *plainDest
			m  *refTrigger
		}
		mk := func() *instance {
			in := &instance{m: &refTrigger{cond: cl, trig: tl}}
			if plain {
				in.pd = &plainDest{}
				in.w = &zerolog.TriggerLevelWriter{Writer: in.pd, ConditionalLevel: cl, TriggerLevel: tl}
			} else {
				in.ld = &levelDest{}
				in.w = &zerolog.TriggerLevelWriter{Writer: in.ld, ConditionalLevel: cl, TriggerLevel: tl}
			}
			return in
		}
		step := func(in *instance, id, i int, o op) {
			switch o.kind {
			case "w":
				line := lineOf(id, i)
				arg := []byte(line)
				n, err := in.w.WriteLevel(o.lvl, arg)
				for k := range arg { // the caller owns its buffer again (zerolog recycles it)
					arg[k] = '#'
				}
				if n != len(line) || err != nil {
					in.m.out = append(in.m.out, rec{0, true, fmt.Sprintf("<<WriteLevel returned (%d,%v)>>", n, err)})
				}
				in.m.write(o.lvl, line)
				if len(in.m.held) > 0 {
					heldAny = true
				}
			case "trigger":
				in.w.Trigger()
				in.m.trigger()
			case "close":
				in.w.Close()
				in.m.close()
			}
		}
		collect := func(in *instance, id int) {
			if plain {
				gots[id] = in.pd.got
			} else {
				gots[id] = in.ld.got
			}
			wants[id] = in.m.out
		}
		a := mk()
		// instance 0's destination holds a line in ANOTHER TriggerLevelWriter every time it receives one (a
		// destination that logs): a buffer instance 0 gave back too early would be handed to that writer and
		// overwritten while instance 0 is still delivering from it
		side := &zerolog.TriggerLevelWriter{Writer: &levelDest{}, ConditionalLevel: zerolog.ErrorLevel, TriggerLevel: zerolog.PanicLevel}
		if a.ld != nil {
			a.ld.onRecv = func() { side.WriteLevel(zerolog.DebugLevel, []byte("side line held while instance 0 delivers\n")) }
		}
		for i, o := range hist {
			step(a, 0, i, o)
		}
		a.w.Close()
		side.Close()
		collect(a, 0)
		b, c := mk(), mk()
		for i, o := range hist {
			step(b, 1, i, o)
			step(c, 2, i, o)
		}
		b.w.Close()
		c.w.Close()
		collect(b, 1)
		collect(c, 2)
	})
	r.Transitions += int64(3 * len(hist))
	if len(res.Panics) > 0 || res.Deadlock {
		r.Eval(fmt.Sprint(cl, tl, plain, hist, "panic"), true)
		r.Violation("", fmt.Sprint("seq-panic/", cl, tl, plain), fmt.Sprintf("ConditionalLevel=%d TriggerLevel=%d plainDest=%v history %v: the writer panicked or blocked (deadlock=%v): %s", cl, tl, plain, hist, res.Deadlock, firstLineOf(res.Panics)),
			map[string]interface{}{"cond": cl, "trig": tl, "plain": plain, "history": fmt.Sprint(hist)})
		return
	}
	r.Eval(fmt.Sprint(cl, tl, plain, hist, fmtRecs(gots[0])), heldAny)
	for inst := 0; inst < 3; inst++ {
		if !sameRecs(gots[inst], wants[inst], !plain) {
			r.Violation("", fmt.Sprint("seq/", cl, tl, plain, inst), fmt.Sprintf("ConditionalLevel=%d TriggerLevel=%d plainDest=%v instance %d (0 alone and closed; 1 and 2 open together afterwards) history %v: destination got %s, model expects %s", cl, tl, plain, inst, hist, fmtRecs(gots[inst]), fmtRecs(wants[inst])),
				map[string]interface{}{"cond": cl, "trig": tl, "plain": plain, "history": fmt.Sprint(hist)})
		}
	}
	if r.Evals%200000 == 1 {
		r.Sample(fmt.Sprintf("cond=%d trig=%d plain=%v history=%v -> %s", cl, tl, plain, hist, fmtRecs(gots[0])))
	}
}

func firstLineOf(ps []string) string {
	if len(ps) == 0 {
		return ""
	}
	if i := strings.IndexByte(ps[0], '\n'); i >= 0 {
		return ps[0][:i]
	}
	return ps[0]
}

func runFaultHistory(r *seq.Run, cl, tl zerolog.Level, failAt int, hist []op) {
	ld := &levelDest{failAt: failAt}
	var written []string
	res := mcrt.Run(mcrt.Config{}, func() {
		w := &zerolog.TriggerLevelWriter{Writer: ld, ConditionalLevel: cl, TriggerLevel: tl}
		for i, o := range hist {
			switch o.kind {
			case "w":
				line := lineOf(7, i)
				written = append(written, line)
				arg := []byte(line)
				w.WriteLevel(o.lvl, arg)
				for k := range arg {
					arg[k] = '#'
				}
			case "trigger":
				w.Trigger()
			case "close":
				w.Close()
			}
		}
		w.Close()
	})
	r.Transitions += int64(len(hist))
	if len(res.Panics) > 0 || res.Deadlock {
		r.Violation("", "fault/panic", fmt.Sprintf("cond=%d trig=%d, destination call %d fails, history %v: the writer panicked or blocked (deadlock=%v): %s", cl, tl, failAt, hist, res.Deadlock, firstLineOf(res.Panics)), fmt.Sprint(hist))
		return
	}
	r.Eval(fmt.Sprint("fault", cl, tl, failAt, hist, fmtRecs(ld.got)), ld.calls >= failAt)
	pos := map[string]int{}
	for i, l := range written {
		pos[l] = i
	}
	seen := map[string]bool{}
	last := -1
	for _, g := range ld.got {
		p, ok := pos[g.line]
		switch {
		case !ok:
			r.Violation("", "fault/altered", fmt.Sprintf("cond=%d trig=%d, destination call %d fails, history %v: received %q which was never written", cl, tl, failAt, hist, g.line), fmt.Sprint(hist))
			return
		case seen[g.line]:
			r.Violation("", "fault/duplicated", fmt.Sprintf("cond=%d trig=%d, destination call %d fails, history %v: line %q delivered twice (received %s)", cl, tl, failAt, hist, g.line, fmtRecs(ld.got)), fmt.Sprint(hist))
			return
		case g.lvl <= cl && p < last:
			r.Violation("", "fault/reordered", fmt.Sprintf("cond=%d trig=%d, destination call %d fails, history %v: line %q delivered after a later one (received %s)", cl, tl, failAt, hist, g.line, fmtRecs(ld.got)), fmt.Sprint(hist))
			return
		}
		seen[g.line] = true
		if g.lvl <= cl {
			last = p // only lines that can be held are subject to "in their original order"
		}
	}
}

// ---- concurrent scenarios: "T<n>/<ops of thread 0>,<ops of thread 1>,.../c<cond>t<trig>" ----

type cop struct {
	o          op
	line       string
	call, retn int
}

type cinst struct {
	cond, trig zerolog.Level
	threads    [][]*cop
	dest       *levelDest
	done       []bool
	clock      int
	lockOrder  []*cop
}

func parseOps(s string) []op {
	var out []op
	for len(s) > 0 {
		switch {
		case strings.HasPrefix(s, "trigger"):
			out = append(out, op{"trigger", 0})
			s = s[7:]
		case strings.HasPrefix(s, "close"):
			out = append(out, op{"close", 0})
			s = s[5:]
		case s[0] == 'w':
			out = append(out, op{"w", zerolog.Level(s[1] - '0')})
			s = s[2:]
		default:
			return nil
		}
	}
	return out
}

func factory(name string) *explore.Scenario {
	parts := strings.Split(name, "/")
	if len(parts) != 3 {
		return nil
	}
	var c, t int
	if _, err := fmt.Sscanf(parts[2], "c%dt%d", &c, &t); err != nil {
		return nil
	}
	thr := strings.Split(parts[1], ",")
	return &explore.Scenario{Name: name, New: func() explore.Instance {
		in := &cinst{cond: zerolog.Level(c), trig: zerolog.Level(t), dest: &levelDest{yield: true}, done: make([]bool, len(thr))}
		for ti, ts := range thr {
			var cs []*cop
			for i, o := range parseOps(ts) {
				cs = append(cs, &cop{o: o, line: fmt.Sprintf("t%d.%d\n", ti, i)})
			}
			in.threads = append(in.threads, cs)
		}
		return in
	}}
}

func (in *cinst) Body() {
	w := &zerolog.TriggerLevelWriter{Writer: in.dest, ConditionalLevel: in.cond, TriggerLevel: in.trig}
	for ti := range in.threads {
		ti := ti
		mcrt.GoNamed(fmt.Sprintf("w%d", ti), false, func() {
			for _, c := range in.threads[ti] {
				in.clock++
				c.call = in.clock
				switch c.o.kind {
				case "w":
					arg := []byte(c.line)
					w.WriteLevel(c.o.lvl, arg)
					for k := range arg {
						arg[k] = '#'
					}
				case "trigger":
					w.Trigger()
				case "close":
					w.Close()
				}
				in.clock++
				c.retn = in.clock
			}
			in.done[ti] = true
		})
	}
	mcrt.Block("join", nil, func() bool {
		for _, d := range in.done {
			if !d {
				return false
			}
		}
		return true
	})
}

func (in *cinst) Digest() string { return fmtRecs(in.dest.got) }

func (in *cinst) ExtraKey() uint64 {
	var sb strings.Builder
	for _, t := range in.threads {
		for _, c := range t {
			fmt.Fprintf(&sb, "%d,%d;", c.call, c.retn)
		}
	}
	return explore.HashStrings(in.Digest(), sb.String(), fmt.Sprint(in.dest.busy))
}

func (in *cinst) Check(res *mcrt.Result) []explore.Violation {
	var vs []explore.Violation
	if res.Deadlock || len(res.Panics) > 0 || res.Capped {
		vs = append(vs, explore.Violation{Prop: "C15", Msg: fmt.Sprintf("deadlock=%v capped=%v panics=%v", res.Deadlock, res.Capped, res.Panics)})
		return vs
	}
	if in.dest.over {
		vs = append(vs, explore.Violation{Prop: "C15", Msg: "destination entered by two calls at once (lines interleaved)"})
	}
	// linearizability: some permutation consistent with real-time order whose model output equals what the destination got
	var all []*cop
	for _, t := range in.threads {
		all = append(all, t...)
	}
	used := make([]bool, len(all))
	var order []*cop
	found := false
	var try func()
	try = func() {
		if found {
			return
		}
		if len(order) == len(all) {
			m := &refTrigger{cond: in.cond, trig: in.trig}
			for _, c := range order {
				switch c.o.kind {
				case "w":
					m.write(c.o.lvl, c.line)
				case "trigger":
					m.trigger()
				case "close":
					m.close()
				}
			}
			if sameRecs(m.out, in.dest.got, true) {
				found = true
			}
			return
		}
		for i, c := range all {
			if used[i] {
				continue
			}
			// c may come next only if no unused op returned before c was called
			ok := true
			for j, d := range all {
				if !used[j] && j != i && d.retn != 0 && d.retn < c.call {
					ok = false
				}
			}
			if !ok {
				continue
			}
			used[i] = true
			order = append(order, c)
			try()
			order = order[:len(order)-1]
			used[i] = false
		}
	}
	try()
	if !found {
		vs = append(vs, explore.Violation{Prop: "C15", Msg: fmt.Sprintf("destination sequence %s is not the model's output for any linearization of the calls", fmtRecs(in.dest.got))})
	}
	return vs
}
