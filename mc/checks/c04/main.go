// Command c04 decides C04 (the level gate is exact, filtered events are inert) by exhaustive
// enumeration of the finite product 256 logger levels x 256 global levels x 136 event levels
// (x sampler behaviours), of all 256 level text forms, and of every exported *Event method
// (discovered by reflection) applied, singly and in ordered pairs, to a filtered event.
package main

import (
	"context"
	"flag"
	"fmt"
	"net/http"
	"os"
	"os/exec"
	"reflect"
	"strconv"
	"strings"

	"github.com/rs/zerolog"
	"github.com/rs/zerolog/hlog"
	zlog "github.com/rs/zerolog/log"

	"verif/drv"
	"verif/seq"
)

type recLW struct {
	n     int
	lvl   zerolog.Level
	plain int
}

func (w *recLW) Write(p []byte) (int, error) { w.plain++; w.n++; return len(p), nil }
func (w *recLW) WriteLevel(l zerolog.Level, p []byte) (int, error) {
	w.n++
	w.lvl = l
	return len(p), nil
}

type countSampler struct {
	calls int
	admit bool
	last  zerolog.Level // the level the sampler was asked about (must be the EVENT's level)
}

func (s *countSampler) Sample(l zerolog.Level) bool { s.calls++; s.last = l; return s.admit }

type countHook struct{ calls int }

func (h *countHook) Run(e *zerolog.Event, l zerolog.Level, m string) { h.calls++ }

// ---- recording arguments for the reflection part ----
var invoked []string

type recObj struct{}

func (recObj) MarshalZerologObject(e *zerolog.Event) { invoked = append(invoked, "MarshalZerologObject") }

type recArr struct{}

func (recArr) MarshalZerologArray(a *zerolog.Array) { invoked = append(invoked, "MarshalZerologArray") }

type recErr struct{}

func (recErr) Error() string { invoked = append(invoked, "Error()"); return "e" }

type recStr struct{}

func (recStr) String() string { invoked = append(invoked, "String()"); return "s" }

var (
	tObj  = reflect.TypeOf((*zerolog.LogObjectMarshaler)(nil)).Elem()
	tArr  = reflect.TypeOf((*zerolog.LogArrayMarshaler)(nil)).Elem()
	tErr  = reflect.TypeOf((*error)(nil)).Elem()
	tStr  = reflect.TypeOf((*fmt.Stringer)(nil)).Elem()
	tCtx  = reflect.TypeOf((*context.Context)(nil)).Elem()
	tAny  = reflect.TypeOf((*interface{})(nil)).Elem()
	tEv   = reflect.TypeOf((*zerolog.Event)(nil))
	unmap = map[string]bool{}
)

func synth(t reflect.Type, where string) reflect.Value {
	switch t {
	case tObj:
		return reflect.ValueOf(recObj{})
	case tArr:
		return reflect.ValueOf(recArr{})
	case tErr:
		return reflect.ValueOf(recErr{})
	case tStr:
		return reflect.ValueOf(recStr{})
	case tCtx:
		return reflect.ValueOf(context.Background())
	case tAny:
		return reflect.ValueOf(recObj{})
	case tEv:
		return reflect.ValueOf(zerolog.Dict().Str("d", "v"))
	}
	switch t.Kind() {
	case reflect.Func:
		return reflect.MakeFunc(t, func(args []reflect.Value) []reflect.Value {
			invoked = append(invoked, "callback "+t.String())
			out := make([]reflect.Value, t.NumOut())
			for i := range out {
				out[i] = reflect.Zero(t.Out(i))
			}
			return out
		})
	case reflect.String:
		return reflect.ValueOf("k").Convert(t)
	case reflect.Slice:
		s := reflect.MakeSlice(t, 1, 1)
		s.Index(0).Set(synth(t.Elem(), where))
		return s
	case reflect.Interface:
		unmap[where+":"+t.String()] = true
		return reflect.Zero(t)
	case reflect.Int, reflect.Int8, reflect.Int16, reflect.Int32, reflect.Int64:
		return reflect.ValueOf(1).Convert(t)
	case reflect.Uint, reflect.Uint8, reflect.Uint16, reflect.Uint32, reflect.Uint64:
		return reflect.ValueOf(uint(1)).Convert(t)
	case reflect.Float32, reflect.Float64:
		return reflect.ValueOf(1.5).Convert(t)
	case reflect.Bool:
		return reflect.ValueOf(true)
	}
	return reflect.Zero(t)
}

// poolProbe opens two events, two dicts and two arrays at the same time and finalises them: if a filtered call
// left the pools in a bad state (the same object pooled twice, an object still in use put back) the two
// events are not the ones their chains build.
type probeW struct{ lines []string }

func (p *probeW) Write(b []byte) (int, error) { p.lines = append(p.lines, string(b)); return len(b), nil }

const probeWant = `{"a":"1","d":{"x":"1"},"r":[1],"message":"one"}` + "\n" + `{"b":"2","d":{"y":"2"},"r":[2],"message":"two"}` + "\n"

func poolProbe() string {
	pw := &probeW{}
	lg := zerolog.New(pw)
	e1 := lg.Log().Str("a", "1")
	e2 := lg.Log().Str("b", "2")
	d1 := zerolog.Dict().Str("x", "1")
	d2 := zerolog.Dict().Str("y", "2")
	a1 := zerolog.Arr().Int(1)
	a2 := zerolog.Arr().Int(2)
	e1.Dict("d", d1).Array("r", a1).Msg("one")
	e2.Dict("d", d2).Array("r", a2).Msg("two")
	return strings.Join(pw.lines, "")
}

func callOn(recv reflect.Value, m reflect.Method) (out []reflect.Value, panicked string) {
	mt := m.Type
	var args []reflect.Value
	for i := 1; i < mt.NumIn(); i++ {
		pt := mt.In(i)
		if mt.IsVariadic() && i == mt.NumIn()-1 {
			args = append(args, synth(pt.Elem(), m.Name))
			continue
		}
		args = append(args, synth(pt, m.Name))
	}
	defer func() {
		if r := recover(); r != nil {
			panicked = fmt.Sprint(r)
		}
	}()
	out = recv.MethodByName(m.Name).Call(args)
	return
}

// disabledSources: the loggers the library itself hands out for "no logger here" (used THROUGH the pointer
// they return: identity matters), plus the ways a user builds a disabled one.
func disabledSources() (names []string, get []func() *zerolog.Logger) {
	add := func(n string, f func() *zerolog.Logger) { names = append(names, n); get = append(get, f) }
	add("zerolog.Ctx(ctx without logger)", func() *zerolog.Logger { return zerolog.Ctx(context.Background()) })
	add("log.Ctx(ctx without logger)", func() *zerolog.Logger { return zlog.Ctx(context.Background()) })
	add("hlog.FromRequest(request without logger)", func() *zerolog.Logger {
		req, _ := http.NewRequest("GET", "http://x/", nil)
		return hlog.FromRequest(req)
	})
	add("Nop()", func() *zerolog.Logger { l := zerolog.Nop(); return &l })
	add("New(nil).Level(Disabled)", func() *zerolog.Logger { l := zerolog.New(nil).Level(zerolog.Disabled); return &l })
	add("copy of *zerolog.Ctx(ctx)", func() *zerolog.Logger { l := *zerolog.Ctx(context.Background()); return &l })
	return
}

func child() {
	spec := os.Getenv("C04_CHILD")
	var kind string
	var ll, gl int
	fmt.Sscanf(spec, "%s %d %d", &kind, &ll, &gl)
	zerolog.SetGlobalLevel(zerolog.Level(gl))
	w := &recLW{}
	lg := zerolog.New(w).Level(zerolog.Level(ll))
	if strings.HasSuffix(kind, "+reject") {
		lg = lg.Sample(&countSampler{admit: false})
		kind = strings.TrimSuffix(kind, "+reject")
	}
	if strings.HasPrefix(kind, "fatal@") {
		var i int
		fmt.Sscanf(kind, "fatal@%d", &i)
		_, get := disabledSources()
		get[i]().Fatal().Msg("x")
		fmt.Printf("RETURNED\n")
		os.Exit(0)
	}
	switch kind {
	case "fatal":
		lg.Fatal().Msg("x")
		fmt.Printf("RETURNED writes=%d\n", w.n)
	case "withlevel-fatal":
		lg.WithLevel(zerolog.FatalLevel).Msg("x")
		fmt.Printf("RETURNED writes=%d\n", w.n)
	}
	os.Exit(0)
}

func main() {
	if os.Getenv("C04_CHILD") != "" {
		child()
	}
	tierF := flag.String("tier", "", "")
	flag.String("prop", "C04", "")
	flag.Parse()
	tier := drv.Tier(*tierF)
	r := seq.New("C04", tier, "exploration")
	defer r.CrashGuard()
	defer r.Watch()()
	r.Rule = "exhaustive finite product: (logger level, global level, event level, sampler behaviour) through WithLevel and through each named level method; all 256 level text forms; every exported *Event method (reflection) on a filtered event singly and in ordered pairs; Panic/Fatal filtered and unfiltered (Fatal in re-executed child processes); the same gate oracle on 11 derivations / configuration orders of a configured logger (12x12 level grid x 256 event levels x 3 samplers); distinct = distinct (configuration, written?, level seen, sampler calls); non-trivial = the event passed at least one of the two level tests but not necessarily both"
	r.Assumptions = []string{"event levels: the statement's 136 (-128..6 and Disabled) and, beyond it, the custom levels 8..127", "Fatal is observed through the exit status of a re-executed copy of this binary"}

	w := &recLW{}
	evLevels := []zerolog.Level{}
	for l := -128; l <= 127; l++ { // the statement's 136 levels and the custom levels 8..127 above them
		evLevels = append(evLevels, zerolog.Level(l))
	}
	type sm struct {
		name  string
		admit bool
		nilS  bool
	}
	samplers := []sm{{"none", true, true}, {"admit", true, false}, {"reject", false, false}}
	hk := &countHook{}
	for ll := -128; ll <= 127; ll++ {
		for gl := -128; gl <= 127; gl++ {
			zerolog.SetGlobalLevel(zerolog.Level(gl))
			for _, s := range samplers {
				if tier == "quick" && !s.nilS && (ll+gl)%4 != 0 {
					continue // quick: sampler variants on a quarter of the (logger, global) grid; thorough: all
				}
				cs := &countSampler{admit: s.admit}
				lg := zerolog.New(w).Level(zerolog.Level(ll)).Hook(hk)
				if !s.nilS {
					lg = lg.Sample(cs)
				}
				for _, el := range evLevels {
					w.n, w.plain = 0, 0
					w.lvl = 99
					cs.calls = 0
					hk.calls = 0
					lg.WithLevel(el).Msg("m")
					passes := int(el) >= ll && int(el) >= gl && el != zerolog.Disabled
					want := passes && (s.nilS || s.admit)
					got := w.n == 1
					ok := got == want && w.n <= 1 && w.plain == 0
					if got && w.lvl != el {
						ok = false
					}
					wantCalls := 0
					if passes && !s.nilS {
						wantCalls = 1
					}
					if cs.calls != wantCalls || (cs.calls == 1 && cs.last != el) {
						ok = false
					}
					wantHook := 0
					if want {
						wantHook = 1
					}
					if hk.calls != wantHook {
						ok = false
					}
					r.EvalHash(uint64(uint8(ll))<<32|uint64(uint8(gl))<<24|uint64(uint8(el))<<16|uint64(w.n)<<8|uint64(cs.calls)<<4|uint64(len(s.name)), (int(el) >= ll) != (int(el) >= gl))
					if !ok {
						r.Violation("", fmt.Sprint("gate/", s.name, el >= zerolog.Level(ll), el >= zerolog.Level(gl)), fmt.Sprintf("logger level %d, global level %d, sampler %s, WithLevel(%d): writes=%d (want %v) level seen=%d plainWrites=%d sampler calls=%d (want %d; asked about level %d) hook calls=%d (want %d)", ll, gl, s.name, el, w.n, want, w.lvl, w.plain, cs.calls, wantCalls, cs.last, hk.calls, wantHook), nil)
					}
				}
			}
		}
	}
	r.Sample("logger level 1, global level -3, sampler none, WithLevel(0) -> not written; WithLevel(1) -> written with level 1")
	// The gate belongs to the logger VALUE: every way of deriving a logger from a configured one, and every order of
	// the three configuring calls, keeps the level, the sampler and the hook (wave 21: Output() had dropped the sampler).
	{
		w2 := &recLW{}
		type cfg struct {
			name string
			mk   func(ll zerolog.Level, cs *countSampler, withS bool) (zerolog.Logger, *recLW)
		}
		smp := func(l zerolog.Logger, cs *countSampler, withS bool) zerolog.Logger {
			if withS {
				return l.Sample(cs)
			}
			return l
		}
		base := func(ll zerolog.Level, cs *countSampler, withS bool) zerolog.Logger {
			return smp(zerolog.New(w).Level(ll).Hook(hk), cs, withS)
		}
		cfgs := []cfg{
			{"order sample,level,hook", func(ll zerolog.Level, cs *countSampler, s bool) (zerolog.Logger, *recLW) {
				return smp(zerolog.New(w), cs, s).Level(ll).Hook(hk), w
			}},
			{"order hook,sample,level", func(ll zerolog.Level, cs *countSampler, s bool) (zerolog.Logger, *recLW) {
				return smp(zerolog.New(w).Hook(hk), cs, s).Level(ll), w
			}},
			{"Output(w2)", func(ll zerolog.Level, cs *countSampler, s bool) (zerolog.Logger, *recLW) {
				return base(ll, cs, s).Output(w2), w2
			}},
			{"With().Logger()", func(ll zerolog.Level, cs *countSampler, s bool) (zerolog.Logger, *recLW) {
				return base(ll, cs, s).With().Logger(), w
			}},
			{"With().Str().Logger()", func(ll zerolog.Level, cs *countSampler, s bool) (zerolog.Logger, *recLW) {
				return base(ll, cs, s).With().Str("k", "v").Logger(), w
			}},
			{"With().Logger().Output(w2)", func(ll zerolog.Level, cs *countSampler, s bool) (zerolog.Logger, *recLW) {
				return base(ll, cs, s).With().Timestamp().Logger().Output(w2), w2
			}},
			{"Output(w2).With().Logger()", func(ll zerolog.Level, cs *countSampler, s bool) (zerolog.Logger, *recLW) {
				return base(ll, cs, s).Output(w2).With().Logger(), w2
			}},
			{"UpdateContext", func(ll zerolog.Level, cs *countSampler, s bool) (zerolog.Logger, *recLW) {
				l := base(ll, cs, s)
				l.UpdateContext(func(c zerolog.Context) zerolog.Context { return c.Int("u", 1) })
				return l, w
			}},
			{"Ctx(WithContext)", func(ll zerolog.Level, cs *countSampler, s bool) (zerolog.Logger, *recLW) {
				l := base(ll, cs, s)
				return *zerolog.Ctx(l.WithContext(context.Background())), w
			}},
			{"Level(same) again", func(ll zerolog.Level, cs *countSampler, s bool) (zerolog.Logger, *recLW) {
				return base(ll, cs, s).Level(ll), w
			}},
			{"copy through pointer", func(ll zerolog.Level, cs *countSampler, s bool) (zerolog.Logger, *recLW) {
				l := base(ll, cs, s)
				p := &l
				return *p, w
			}},
		}
		grid := []int{-128, -2, -1, 0, 1, 2, 3, 5, 6, 7, 8, 127}
		for _, c := range cfgs {
			for _, ll := range grid {
				if c.name == "Ctx(WithContext)" && ll == int(zerolog.Disabled) {
					continue // documented: WithContext does not store a Disabled logger, Ctx then hands out the package's disabled one
				}
				for _, gl := range grid {
					zerolog.SetGlobalLevel(zerolog.Level(gl))
					for _, s := range samplers {
						cs := &countSampler{admit: s.admit}
						lg, dst := c.mk(zerolog.Level(ll), cs, !s.nilS)
						other := w
						if dst == w {
							other = w2
						}
						for _, el := range evLevels {
							w.n, w.plain, w2.n, w2.plain = 0, 0, 0, 0
							dst.lvl = 99
							cs.calls, hk.calls = 0, 0
							lg.WithLevel(el).Msg("m")
							passes := int(el) >= ll && int(el) >= gl && el != zerolog.Disabled
							want := passes && (s.nilS || s.admit)
							wantCalls, wantHook := 0, 0
							if passes && !s.nilS {
								wantCalls = 1
							}
							if want {
								wantHook = 1
							}
							ok := (dst.n == 1) == want && dst.n <= 1 && dst.plain == 0 && other.n == 0 && (dst.n == 0 || dst.lvl == el) &&
								cs.calls == wantCalls && (cs.calls == 0 || cs.last == el) && hk.calls == wantHook
							r.EvalHash(seq.Hash(c.name)^(uint64(uint8(ll))<<32|uint64(uint8(gl))<<24|uint64(uint8(el))<<16|uint64(dst.n)<<8|uint64(cs.calls)<<4|uint64(len(s.name))), (int(el) >= ll) != (int(el) >= gl))
							if !ok {
								r.Violation("", fmt.Sprint("derived/", c.name, "/", s.name, passes), fmt.Sprintf("logger configured with level %d, hook and sampler %s, then %s; global level %d, WithLevel(%d): writes=%d (want %v) level seen=%d writes to the other writer=%d sampler calls=%d (want %d) hook calls=%d (want %d)", ll, s.name, c.name, gl, el, dst.n, want, dst.lvl, other.n, cs.calls, wantCalls, hk.calls, wantHook), nil)
							}
						}
					}
				}
			}
		}
		r.Sample("New(w).Level(1).Hook(h).Sample(reject).Output(w2), WithLevel(3) -> sampler asked once, nothing written to w or w2")
	}
	// DisableSampling is a setter: after every sequence of up to 4 calls, a rejecting sampler is bypassed iff the LAST
	// value set was true (and consulted exactly once per event otherwise)
	zerolog.SetGlobalLevel(zerolog.TraceLevel)
	for n := 0; n <= 4; n++ {
		for bits := 0; bits < 1<<uint(n); bits++ {
			zerolog.DisableSampling(false)
			last := false
			var seq []bool
			for i := 0; i < n; i++ {
				last = bits>>uint(i)&1 == 1
				seq = append(seq, last)
				zerolog.DisableSampling(last)
			}
			for _, admit := range []bool{false, true} {
				cs := &countSampler{admit: admit}
				w := &recLW{}
				lg := zerolog.New(w).Sample(cs)
				lg.Info().Msg("m")
				lg.Log().Msg("m")
				wantN, wantCalls := 2, 0
				if !last {
					wantCalls = 2
					if !admit {
						wantN = 0
					}
				}
				r.Transitions++
				r.Eval(fmt.Sprint("dis", seq, admit, w.n, cs.calls), true)
				if w.n != wantN || cs.calls != wantCalls {
					r.Violation("", "disable-sampling", fmt.Sprintf("after DisableSampling%v and a sampler that answers %v: two events gave %d writes (want %d) and %d sampler calls (want %d)", seq, admit, w.n, wantN, cs.calls, wantCalls), nil)
				}
			}
		}
	}
	zerolog.DisableSampling(false)
	// named level methods
	type nm struct {
		name string
		lvl  zerolog.Level
		f    func(l *zerolog.Logger) *zerolog.Event
	}
	named := []nm{
		{"Trace", zerolog.TraceLevel, (*zerolog.Logger).Trace}, {"Debug", zerolog.DebugLevel, (*zerolog.Logger).Debug},
		{"Info", zerolog.InfoLevel, (*zerolog.Logger).Info}, {"Warn", zerolog.WarnLevel, (*zerolog.Logger).Warn},
		{"Error", zerolog.ErrorLevel, (*zerolog.Logger).Error}, {"Log", zerolog.NoLevel, (*zerolog.Logger).Log},
		{"Err(nil)", zerolog.InfoLevel, func(l *zerolog.Logger) *zerolog.Event { return l.Err(nil) }},
		{"Err(e)", zerolog.ErrorLevel, func(l *zerolog.Logger) *zerolog.Event { return l.Err(fmt.Errorf("x")) }},
	}
	for ll := -128; ll <= 127; ll++ {
		for gl := -128; gl <= 127; gl++ {
			zerolog.SetGlobalLevel(zerolog.Level(gl))
			lg := zerolog.New(w).Level(zerolog.Level(ll))
			for _, m := range named {
				w.n = 0
				w.lvl = 99
				m.f(&lg).Msg("m")
				want := int(m.lvl) >= ll && int(m.lvl) >= gl
				r.EvalHash(seq.Hash(m.name)^uint64(uint8(ll))<<8^uint64(uint8(gl))<<16^uint64(w.n), want)
				if (w.n == 1) != want || (want && w.lvl != m.lvl) {
					r.Violation("", "named/"+m.name, fmt.Sprintf("logger level %d, global level %d, %s(): writes=%d want %v, level seen %d", ll, gl, m.name, w.n, want, w.lvl), nil)
				}
			}
			// Print family is debug level
			w.n = 0
			lg.Print("p")
			if (w.n == 1) != (0 >= ll && 0 >= gl) {
				r.Violation("", "print", fmt.Sprintf("logger level %d, global level %d, Print: writes=%d", ll, gl, w.n), nil)
			}
			// Panic: written iff enabled, always panics
			for _, filtered := range []bool{false, true} {
				_ = filtered
			}
			w.n = 0
			p := func() (pan bool) {
				defer func() {
					if recover() != nil {
						pan = true
					}
				}()
				lg.Panic().Msg("boom")
				return false
			}()
			wantW := int(zerolog.PanicLevel) >= ll && int(zerolog.PanicLevel) >= gl
			r.EvalHash(uint64(uint8(ll))<<8^uint64(uint8(gl))<<16^uint64(w.n)^1<<40, !wantW)
			if !p || (w.n == 1) != wantW {
				r.Violation("", fmt.Sprint("panic/", wantW), fmt.Sprintf("logger level %d, global level %d: Panic().Msg panicked=%v (want true) writes=%d (want %v)", ll, gl, p, w.n, wantW), nil)
			}
			// filtered by the SAMPLER rather than by a level: still panics, writes nothing
			lgRej := lg.Sample(&countSampler{admit: false})
			w.n = 0
			p3 := func() (pan bool) {
				defer func() {
					if recover() != nil {
						pan = true
					}
				}()
				lgRej.Panic().Msg("boom")
				return false
			}()
			if !p3 || w.n != 0 {
				r.Violation("", "panic/sampler-rejected", fmt.Sprintf("logger level %d, global level %d, rejecting sampler: Panic().Msg panicked=%v (want true) writes=%d (want 0)", ll, gl, p3, w.n), nil)
			}
			p2 := func() (pan bool) {
				defer func() {
					if recover() != nil {
						pan = true
					}
				}()
				lg.WithLevel(zerolog.PanicLevel).Msg("no boom")
				return false
			}()
			if p2 {
				r.Violation("", "withlevel-panic", fmt.Sprintf("logger level %d, global level %d: WithLevel(PanicLevel).Msg panicked", ll, gl), nil)
			}
		}
	}
	zerolog.SetGlobalLevel(zerolog.TraceLevel)

	// level text forms
	for l := -128; l <= 127; l++ {
		lv := zerolog.Level(l)
		if g := zerolog.New(w).Level(lv).GetLevel(); g != lv {
			r.Violation("", "getlevel", fmt.Sprintf("Level(%d).GetLevel() = %d", l, g), nil)
		}
		got, err := zerolog.ParseLevel(lv.String())
		b, _ := lv.MarshalText()
		var back zerolog.Level = 55
		err2 := back.UnmarshalText(b)
		r.Eval(fmt.Sprint("text", l, lv.String()), true)
		if err != nil || got != lv || err2 != nil || back != lv {
			r.Violation("", fmt.Sprint("text/", l), fmt.Sprintf("level %d: String()=%q ParseLevel->(%d,%v); MarshalText=%q UnmarshalText->(%d,%v)", l, lv.String(), got, err, b, back, err2), nil)
		}
	}
	// the documented default text forms themselves (README: trace, debug, info, warn, error, fatal, panic; "disabled";
	// nothing for NoLevel; the number otherwise) - a table written here, not read from the library
	for lvl, name := range map[zerolog.Level]string{zerolog.TraceLevel: "trace", zerolog.DebugLevel: "debug", zerolog.InfoLevel: "info", zerolog.WarnLevel: "warn",
		zerolog.ErrorLevel: "error", zerolog.FatalLevel: "fatal", zerolog.PanicLevel: "panic", zerolog.Disabled: "disabled", zerolog.NoLevel: "", zerolog.Level(42): "42", zerolog.Level(-7): "-7"} {
		got, err := zerolog.ParseLevel(name)
		r.Eval(fmt.Sprint("name", lvl, lvl.String()), true)
		if lvl.String() != name || zerolog.LevelFieldMarshalFunc(lvl) != name || err != nil || got != lvl {
			r.Violation("", "level-name", fmt.Sprintf("level %d: String()=%q LevelFieldMarshalFunc=%q, documented %q; ParseLevel(%q)=(%d,%v)", lvl, lvl.String(), zerolog.LevelFieldMarshalFunc(lvl), name, name, got, err), nil)
		}
	}
	// the text forms must also round-trip when they are customised (upper-case marshal function, renamed values)
	{
		oldF, oldInfo, oldWarn := zerolog.LevelFieldMarshalFunc, zerolog.LevelInfoValue, zerolog.LevelWarnValue
		variants := map[string]func(){
			"LevelFieldMarshalFunc=upper": func() {
				zerolog.LevelFieldMarshalFunc = func(l zerolog.Level) string { return strings.ToUpper(l.String()) }
			},
			"LevelInfoValue=INFO,LevelWarnValue=Warning": func() { zerolog.LevelInfoValue, zerolog.LevelWarnValue = "INFO", "Warning" },
			// text forms that are numbers (syslog-style severities): the named levels still take precedence
			"LevelFieldMarshalFunc=numeric": func() {
				zerolog.LevelFieldMarshalFunc = func(l zerolog.Level) string {
					if l == zerolog.NoLevel {
						return ""
					}
					return strconv.Itoa(107 - int(l))
				}
			},
			"LevelWarnValue=40,LevelInfoValue=30": func() { zerolog.LevelInfoValue, zerolog.LevelWarnValue = "30", "40" },
			"LevelFieldMarshalFunc=bracketed": func() {
				zerolog.LevelFieldMarshalFunc = func(l zerolog.Level) string { return "[" + l.String() + "]" }
			},
		}
		for name, apply := range variants {
			apply()
			for l := -128; l <= 127; l++ {
				lv := zerolog.Level(l)
				if (name == "LevelFieldMarshalFunc=bracketed" || name == "LevelFieldMarshalFunc=numeric" || name == "LevelWarnValue=40,LevelInfoValue=30") && (l < -1 || l > 7) {
					continue // "[12]" is not a number: only the named levels can round-trip through a decorating function
				}
				b, _ := lv.MarshalText()
				var back zerolog.Level = 55
				err := back.UnmarshalText(b)
				r.Eval(fmt.Sprint(name, l, string(b)), true)
				if err != nil || back != lv {
					r.Violation("", "text-custom/"+name, fmt.Sprintf("%s: level %d: MarshalText=%q UnmarshalText->(%d,%v)", name, l, b, back, err), nil)
				}
			}
			zerolog.LevelFieldMarshalFunc, zerolog.LevelInfoValue, zerolog.LevelWarnValue = oldF, oldInfo, oldWarn
		}
	}
	for _, s := range []string{"TRACE", "Debug", "iNfO", "WARN", "Error", "FATAL", "Panic", "Disabled"} {
		got, err := zerolog.ParseLevel(s)
		want, _ := zerolog.ParseLevel(strings.ToLower(s))
		r.Eval("fold"+s, true)
		if err != nil || got != want {
			r.Violation("", "fold/"+s, fmt.Sprintf("ParseLevel(%q) = (%v,%v), want %v", s, got, err, want), nil)
		}
	}

	// every exported *Event method on a filtered event
	hk2 := &countHook{}
	filteredEvents := map[string]func() *zerolog.Event{
		"logger-level":   func() *zerolog.Event { l := zerolog.New(w).Level(zerolog.WarnLevel).Hook(hk2); return l.Info() },
		"global-level":   func() *zerolog.Event { l := zerolog.New(w).Hook(hk2); return l.Debug() },
		"sampler-reject": func() *zerolog.Event { l := zerolog.New(w).Sample(&countSampler{}).Hook(hk2); return l.Error() },
		"disabled-level": func() *zerolog.Event { l := zerolog.New(w).Hook(hk2); return l.WithLevel(zerolog.Disabled) },
		"nop-logger":     func() *zerolog.Event { l := zerolog.Nop(); return l.Error() },
	}
	et := reflect.TypeOf((*zerolog.Event)(nil))
	nMethods := et.NumMethod()
	for fname, mk := range filteredEvents {
		if fname == "global-level" {
			zerolog.SetGlobalLevel(zerolog.InfoLevel)
		} else {
			zerolog.SetGlobalLevel(zerolog.TraceLevel)
		}
		for i := 0; i < nMethods; i++ {
			for j := -1; j < nMethods; j++ {
				if j >= 0 && fname != "logger-level" && tier == "quick" {
					break // pairs on one kind of filtered event in quick, on all in thorough
				}
				e := mk()
				if e != nil {
					r.Violation("", "filtered-nonnil/"+fname, fmt.Sprintf("%s: filtered event is not inert (non-nil *Event)", fname), nil)
					break
				}
				w.n = 0
				hk2.calls = 0
				invoked = invoked[:0]
				m1 := et.Method(i)
				out, pan := callOn(reflect.ValueOf(e), m1)
				desc := m1.Name
				if j >= 0 && pan == "" && len(out) == 1 && out[0].Type() == tEv {
					m2 := et.Method(j)
					desc += "." + m2.Name
					_, pan = callOn(out[0], m2)
				} else if j >= 0 {
					continue
				}
				r.Eval(fname+"/"+desc, j >= 0)
				// what a filtered event answers: Enabled() false, GetCtx() the background context, and every
				// chaining method hands back the same inert (nil) event
				if pan == "" && j < 0 && len(out) == 1 {
					switch {
					case out[0].Kind() == reflect.Bool && out[0].Bool():
						r.Violation("", "inert-result/"+desc, fmt.Sprintf("%s event: %s() returned true", fname, desc), nil)
					case out[0].Type() == tEv && !out[0].IsNil():
						r.Violation("", "inert-result/"+desc, fmt.Sprintf("%s event: %s returned a non-nil *Event", fname, desc), nil)
					case out[0].Type() == tCtx && (out[0].IsNil() || out[0].Interface().(context.Context) != context.Background()):
						r.Violation("", "inert-result/"+desc, fmt.Sprintf("%s event: %s() did not return the background context", fname, desc), nil)
					}
				}
				if got := poolProbe(); got != probeWant {
					r.Violation("", "inert-pools/"+desc, fmt.Sprintf("%s event: after %s two events / dicts / arrays opened at the same time are no longer independent: got %q, want %q", fname, desc, got, probeWant), nil)
				}
				if pan != "" || len(invoked) > 0 || w.n > 0 || hk2.calls > 0 {
					r.Violation("", "inert/"+fname+"/"+desc, fmt.Sprintf("%s event: %s: panic=%q invoked=%v writes=%d hooks=%d", fname, desc, pan, invoked, w.n, hk2.calls), nil)
				}
			}
		}
	}
	zerolog.SetGlobalLevel(zerolog.TraceLevel)
	r.Count("event_methods", int64(nMethods))
	if len(unmap) > 0 {
		var u []string
		for k := range unmap {
			u = append(u, k)
		}
		r.Extra["UNMAPPED"] = u
	}
	r.Sample(fmt.Sprintf("filtered (logger level warn) Info(): every one of %d exported *Event methods, then every ordered pair, e.g. Str.Msg, Func.Send, Object.MsgFunc", nMethods))

	// the disabled loggers the library hands out: Panic() still panics, Fatal() still exits, nothing else does anything
	{
		names, get := disabledSources()
		for i, name := range names {
			func() {
				panicked := false
				func() {
					defer func() { panicked = recover() != nil }()
					get[i]().Panic().Str("k", "v").Msg("boom")
				}()
				r.Eval(fmt.Sprint("disabled-source", i, "panic", panicked), true)
				if !panicked {
					r.Violation("", "disabled-source/panic", fmt.Sprintf("%s: Panic().Msg did not panic", name), nil)
				}
				p2 := false
				enabled := false
				func() {
					defer func() { p2 = recover() != nil }()
					lp := get[i]()
					lp.WithLevel(zerolog.PanicLevel).Msg("no boom")
					lp.WithLevel(zerolog.FatalLevel).Msg("no exit")
					enabled = lp.Info().Str("k", "v").Enabled() || lp.Log().Enabled() || lp.Error().Enabled()
					lp.Info().Msg("m")
					lp.Print("p")
					lp.UpdateContext(func(c zerolog.Context) zerolog.Context { return c.Str("u", "v") })
				}()
				r.Eval(fmt.Sprint("disabled-source", i, "inert", p2, enabled), true)
				if p2 || enabled {
					r.Violation("", "disabled-source/inert", fmt.Sprintf("%s: panicked=%v on WithLevel(Panic/Fatal)/Info/Print/UpdateContext, Enabled()=%v (want false, false)", name, p2, enabled), nil)
				}
			}()
			cmd := exec.Command(os.Args[0])
			cmd.Env = append(os.Environ(), fmt.Sprintf("C04_CHILD=fatal@%d 0 0", i))
			outb, err := cmd.Output()
			code := 0
			if ee, ok := err.(*exec.ExitError); ok {
				code = ee.ExitCode()
			} else if err != nil {
				fmt.Println("INFRA: child:", err)
				os.Exit(2)
			}
			r.Eval(fmt.Sprint("disabled-source", i, "fatal", code), true)
			if code != 1 || strings.Contains(string(outb), "RETURNED") {
				r.Violation("", "disabled-source/fatal", fmt.Sprintf("%s: Fatal().Msg did not exit with status 1 (status %d, output %q)", name, code, outb), nil)
			}
		}
	}
	// Fatal in child processes: 9 named logger levels x {global trace, global above fatal}
	for _, ll := range []int{-1, 0, 1, 2, 3, 4, 5, 6, 7} {
		for _, gl := range []int{-1, 5, 7} {
			for _, kind := range []string{"fatal", "withlevel-fatal", "fatal+reject"} {
				cmd := exec.Command(os.Args[0])
				cmd.Env = append(os.Environ(), fmt.Sprintf("C04_CHILD=%s %d %d", kind, ll, gl))
				outb, err := cmd.Output()
				code := 0
				if ee, ok := err.(*exec.ExitError); ok {
					code = ee.ExitCode()
				} else if err != nil {
					fmt.Println("INFRA: child:", err)
					os.Exit(2)
				}
				r.Eval(fmt.Sprint("child", kind, ll, gl, code), true)
				if (kind == "fatal" || kind == "fatal+reject") && (code != 1 || strings.Contains(string(outb), "RETURNED")) {
					r.Violation("", "fatal-exit", fmt.Sprintf("logger level %d global %d: Fatal().Msg did not exit with status 1 (status %d, output %q)", ll, gl, code, outb), nil)
				}
				if kind == "withlevel-fatal" {
					want := fmt.Sprintf("RETURNED writes=%d", map[bool]int{true: 1, false: 0}[4 >= ll && 4 >= gl])
					if code != 0 || !strings.Contains(string(outb), want) {
						r.Violation("", "withlevel-fatal", fmt.Sprintf("logger level %d global %d: WithLevel(FatalLevel).Msg: status %d output %q, want status 0 and %q", ll, gl, code, outb, want), nil)
					}
				}
			}
		}
	}
	r.Exit()
}
