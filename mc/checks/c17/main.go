// Command c17 decides C17 (the CBOR decoder is total; truncation costs only the last event):
//   - every 1-9 byte header (all 256 initial bytes x boundary argument bytes) at top level and nested
//     under every container / tag the decoder knows, followed by nothing / an item / a break / filler;
//   - every prefix (all offsets) of valid streams of 1-3 events produced by the real encoder;
//   - every single-byte substitution, deletion and duplication at every offset of a corpus of valid streams;
// each through Cbor2JsonManyObjects, DecodeIfBinaryToBytes and ConsoleWriter.Write (binary build).
// Oracle: the call returns (a runtime panic reaching the caller is a violation), allocates at most
// 64*len(input)+64KiB, and for prefixes decodes the complete events exactly as in the full stream and
// reports an error iff the prefix ends inside an event.
package main

import (
	"bytes"
	"flag"
	"fmt"
	"os"
	"os/exec"
	"path/filepath"
	"runtime"
	"strings"
	"time"

	"github.com/rs/zerolog"

	"verif/drv"
	"verif/oracle/cbor8949"
	"verif/seq"
	"verif/seqx"
)

var boundary = []byte{0x00, 0x01, 0x17, 0x18, 0x7f, 0x80, 0xff}

func argPatterns(n int) [][]byte {
	var out [][]byte
	switch n {
	case 0:
		return [][]byte{{}}
	case 1, 2, 4:
		var rec func(prefix []byte)
		rec = func(prefix []byte) {
			if len(prefix) == n {
				out = append(out, append([]byte{}, prefix...))
				return
			}
			for _, b := range boundary {
				rec(append(prefix, b))
			}
		}
		rec(nil)
	case 8:
		for _, b := range boundary {
			all := bytes.Repeat([]byte{b}, 8)
			out = append(out, all)
			for _, rest := range []byte{0x00, 0xff} {
				p := bytes.Repeat([]byte{rest}, 8)
				p[0] = b
				out = append(out, append([]byte{}, p...))
				p = bytes.Repeat([]byte{rest}, 8)
				p[7] = b
				out = append(out, append([]byte{}, p...))
				p = bytes.Repeat([]byte{rest}, 8)
				p[4] = b
				out = append(out, p)
			}
		}
	}
	return out
}

func headers() [][]byte {
	var out [][]byte
	for ib := 0; ib < 256; ib++ {
		ai := ib & 31
		n := 0
		switch ai {
		case 24:
			n = 1
		case 25:
			n = 2
		case 26:
			n = 4
		case 27:
			n = 8
		}
		for _, a := range argPatterns(n) {
			out = append(out, append([]byte{byte(ib)}, a...))
		}
	}
	return out
}

type ctxT struct {
	name        string
	pre, post   []byte
}

func contexts() []ctxT {
	return []ctxT{
		{"top", nil, nil},
		{"map-value", []byte{0xbf, 0x61, 'k'}, []byte{0xff}},
		{"map-key", []byte{0xbf}, []byte{0x01, 0xff}},
		{"array1", []byte{0x81}, nil},
		{"array-indef", []byte{0x9f, 0x01}, []byte{0xff}},
		{"map-def", []byte{0xa1, 0x61, 'k'}, nil},
		{"tag1", []byte{0xc1}, nil},
		{"tag63", []byte{0xd8, 63}, nil},
		{"tag260", []byte{0xd9, 1, 4}, nil},
		{"tag261", []byte{0xd9, 1, 5}, nil},
		{"tag261-map", []byte{0xd9, 1, 5, 0xa1}, []byte{0x18, 0x10}},
		{"tag262", []byte{0xd9, 1, 6}, nil},
		{"tag263", []byte{0xd9, 1, 7}, nil},
	}
}

var suffixes = [][]byte{nil, {0x01}, {0xff}, bytes.Repeat([]byte{'a'}, 40)}

type result struct {
	out   []byte
	err   error
	panic string
}

func decodeMany(in []byte) (r result) {
	defer func() {
		if p := recover(); p != nil {
			r.panic = fmt.Sprint(p)
		}
	}()
	var b bytes.Buffer
	r.err = zerolog.VerifCbor2Json(bytes.NewReader(in), &b)
	r.out = b.Bytes()
	return
}

func decodeIfBinary(in []byte) (r result) {
	defer func() {
		if p := recover(); p != nil {
			r.panic = fmt.Sprint(p)
		}
	}()
	r.out = zerolog.VerifDecodeIfBinary(in)
	return
}

var consoleOut bytes.Buffer

// progressFile: where a worker notes the input it is about to decode (so that the parent can name the
// input that killed the process: out of memory and fatal errors cannot be recovered in-process).
var progressFile string

func throughConsole(in []byte) (r result) {
	defer func() {
		if p := recover(); p != nil {
			r.panic = fmt.Sprint(p)
		}
	}()
	consoleOut.Reset()
	cw := zerolog.ConsoleWriter{Out: &consoleOut, NoColor: true}
	_, r.err = cw.Write(in)
	return
}

type checker struct {
	r       *seq.Run
	ms      runtime.MemStats
	batch   [][]byte
	batchSz int
	memViol int
}

func allocBound(n int) uint64 { return uint64(64*n + 64*1024) }

// overhead allowed per call for fixed-size helpers (bufio reader, output buffer, console buffers)
const perCall = 16 * 1024

func (c *checker) totalAlloc() uint64 {
	runtime.ReadMemStats(&c.ms)
	return c.ms.TotalAlloc
}

func (c *checker) one(in []byte, class string, measure bool) result {
	c.r.Transitions += 3
	c.r.CurNote, c.r.CurBytes = class, in
	var before uint64
	if measure {
		if progressFile != "" {
			os.WriteFile(progressFile, []byte(fmt.Sprintf("%s %x", class, in)), 0o644)
		}
		before = c.totalAlloc()
	}
	r1 := decodeMany(in)
	r2 := decodeIfBinary(in)
	r3 := throughConsole(in)
	if measure {
		used := c.totalAlloc() - before
		if used > 3*(allocBound(len(in))+perCall) {
			c.memViol++
			c.r.Violation("", "alloc/"+class, fmt.Sprintf("decoding %d input bytes %x allocated %d bytes (bound 64*len+64KiB per call)", len(in), clip(in), used), fmt.Sprintf("%x", in))
		}
	}
	for i, r := range []result{r1, r2, r3} {
		if r.panic != "" {
			c.r.Violation("", "panic/"+class+"/"+firstWords(r.panic), fmt.Sprintf("%s panicked on input %x: %s", []string{"Cbor2JsonManyObjects", "DecodeIfBinaryToBytes", "ConsoleWriter.Write"}[i], clip(in), r.panic), fmt.Sprintf("%x", in))
		}
	}
	okv := "ok"
	if r1.err != nil {
		okv = "err"
	}
	c.r.EvalHash(seq.Hash(class, okv, string(r1.out)), r1.err != nil || len(r1.out) > 0)
	return r1
}

// cheap queues an input whose declared lengths cannot exceed the input; memory is measured per batch.
func (c *checker) cheap(in []byte, class string) {
	c.batch = append(c.batch, in)
	c.batchSz += len(in)
	if len(c.batch) >= 256 {
		c.flush(class)
	}
}

func (c *checker) flush(class string) {
	if len(c.batch) == 0 {
		return
	}
	before := c.totalAlloc()
	for _, in := range c.batch {
		c.one(in, class, false)
	}
	used := c.totalAlloc() - before
	bound := uint64(0)
	for _, in := range c.batch {
		bound += 3 * (uint64(64*len(in)) + perCall)
	}
	bound += 64 * 1024
	if used > bound {
		// find the culprit(s)
		for _, in := range c.batch {
			c.one(in, class, true)
		}
	}
	c.batch = c.batch[:0]
	c.batchSz = 0
}

func clip(b []byte) []byte {
	if len(b) > 48 {
		return b[:48]
	}
	return b
}

func firstWords(s string) string {
	if i := strings.IndexByte(s, '\n'); i >= 0 {
		s = s[:i]
	}
	if len(s) > 50 {
		s = s[:50]
	}
	return s
}

// corpus: valid events produced by the real encoder (binary build) for a spread of programs.
// corpusPanics: valid single events on which the decoder panicked (input hex, panic text).
var corpusPanics [][2]string

func corpus(max int) [][]byte {
	alpha := seqx.BuildAlphabet()
	var out [][]byte
	seen := map[string]bool{}
	add := func(p seqx.Program) {
		o := seqx.Run(p)
		if o.Panic != "" || len(o.Lines) != 1 {
			return
		}
		if _, err := cbor8949.ParseOne(o.Lines[0]); err != nil {
			return
		}
		// values the bundled decoder does not accept at all (nil IP / 8-byte MAC: tag 260 of an unexpected
		// length) are outside what the statement calls a valid binary log stream
		d := decodeMany(o.Lines[0])
		if d.panic != "" {
			// "never panics with a runtime error" holds for every input, valid events first of all
			corpusPanics = append(corpusPanics, [2]string{fmt.Sprintf("%x", o.Lines[0]), d.panic})
			return
		}
		if d.err != nil {
			return
		}
		if !seen[string(o.Lines[0])] && len(o.Lines[0]) < 400 {
			seen[string(o.Lines[0])] = true
			out = append(out, o.Lines[0])
		}
	}
	for _, a := range alpha.Full {
		add(seqx.Program{Entry: seqx.Entry{Kind: "Info"}, Fields: []seqx.Field{seqx.Rekey(a, 0)}, Final: seqx.Final{Kind: "Msg", Text: "m"}})
		if len(out) >= max {
			break
		}
	}
	// every length of a byte / text string around the decoder's fixed-size scratch buffers and the CBOR
	// length-width boundaries (a wave-17 change broke exactly 32-byte Hex values)
	for n := 0; n <= 80; n++ {
		b := make([]byte, n)
		for i := range b {
			b[i] = byte('a' + i%26)
		}
		for _, m := range []string{"Hex", "Bytes", "Str"} {
			var v interface{} = b
			if m == "Str" {
				v = string(b)
			}
			add(seqx.Program{Entry: seqx.Entry{Kind: "Log"}, Fields: []seqx.Field{{M: m, Key: "k", Val: v}}, Final: seqx.Final{Kind: "Send"}})
		}
	}
	for i, a := range alpha.Structural {
		b := alpha.Structural[(i*7+3)%len(alpha.Structural)]
		add(seqx.Program{Steps: []seqx.Step{{Op: "With", Fields: []seqx.Field{{M: "Str", Key: "c", Val: "x"}}}}, Entry: seqx.Entry{Kind: "Log"}, Fields: []seqx.Field{seqx.Rekey(a, 0), seqx.Rekey(b, 1)}, Final: seqx.Final{Kind: "Send"}})
	}
	return out
}

func child(hexIn string) {
	// decode exactly one input in a fresh process (used to pin down which input of a batch kills the process)
	var in []byte
	fmt.Sscanf(hexIn, "%x", &in)
	decodeMany(in)
	decodeIfBinary(in)
	throughConsole(in)
	os.Exit(0)
}

func main() {
	if h := os.Getenv("C17_ONE"); h != "" {
		child(h)
	}
	tierF := flag.String("tier", "", "")
	flag.String("prop", "C17", "")
	flag.Parse()
	tier := drv.Tier(*tierF)
	seqx.PinGlobals()
	zerolog.TimeFieldFormat = time.RFC3339Nano
	r := seq.New("C17", tier, "fault_enumeration")
	defer r.CrashGuard()
	r.Rule = "one evaluation = one byte string decoded through Cbor2JsonManyObjects, DecodeIfBinaryToBytes and ConsoleWriter.Write: (a) every initial byte x boundary argument bytes {00,01,17,18,7f,80,ff} in 13 nesting contexts x 4 suffixes, (b) every prefix (all offsets) of valid streams of 1-3 events from the real encoder, (c) every single-byte substitution / deletion / duplication at every offset of a corpus of valid streams; distinct = distinct (class, error?, output); non-trivial = the decoder produced output or an error"
	r.Assumptions = []string{"arbitrary 64 KiB inputs are not enumerable: coverage is the bounded-exhaustive neighbourhood of valid streams plus all short headers", "allocation is measured with runtime.MemStats.TotalAlloc (per input for inputs that declare a length, per batch of 256 otherwise, bisected on excess)", "journald needs a socket and syslog is excluded from the binary build by its own build tag: only their shared decode entry point and ConsoleWriter are driven"}
	if tier == "quick" {
		r.Deadline = time.Now().Add(150 * time.Second)
	} else {
		r.Deadline = time.Now().Add(25 * time.Minute)
	}
	progDir := filepath.Join(drv.VerifDir(), ".build", "tmp", fmt.Sprintf("c17-progress-%d", os.Getpid()))
	if pd := os.Getenv("C17_PROGRESS_DIR"); pd != "" {
		progDir = pd
	} else {
		os.MkdirAll(progDir, 0o755)
		os.Setenv("C17_PROGRESS_DIR", progDir)
		defer os.RemoveAll(progDir)
	}
	seq.OnShardCrash = func(r *seq.Run, shard, n int, err error) bool {
		b, rerr := os.ReadFile(filepath.Join(progDir, fmt.Sprint(shard)))
		if rerr != nil {
			return false
		}
		seq.CrashMu.Lock()
		defer seq.CrashMu.Unlock()
		parts := strings.SplitN(string(b), " ", 2)
		r.Violation("", "process-death/"+parts[0], fmt.Sprintf("the decoding process died (%v: out of memory or a fatal runtime error cannot be recovered) while decoding the %s input %s", err, parts[0], parts[len(parts)-1]), string(b))
		return true
	}
	seq.Sharded(r, drv.Workers(), func(r *seq.Run, shard, n int) {
		progressFile = filepath.Join(progDir, fmt.Sprint(shard))
		c := &checker{r: r}
		var idx int64
		mine := func() bool { idx++; return idx%int64(n) == int64(shard) }
		// (a) headers
		hs := headers()
		for _, cx := range contexts() {
			for _, h := range hs {
				if !mine() {
					continue
				}
				major := h[0] >> 5
				declares := (major == 2 || major == 3 || major == 4 || major == 5) && len(h) > 1
				for _, sfx := range suffixes {
					in := append(append(append(append([]byte{}, cx.pre...), h...), sfx...), cx.post...)
					if declares && c.memViol < 3 {
						c.one(in, "header/"+cx.name, true)
					} else if !declares {
						c.cheap(in, "header/"+cx.name)
					}
				}
			}
			c.flush("header/" + cx.name)
			if r.TimeUp() {
				return
			}
		}
		// (b) prefixes and (c) mutations need the encoder
		maxCorpus := 300
		if tier == "thorough" {
			maxCorpus = 2000
		}
		cp := corpus(maxCorpus)
		for _, cpn := range corpusPanics {
			c.r.Violation("", "valid-event-panics", fmt.Sprintf("the decoder panics on one valid event written by the encoder: %s (event %s)", cpn[1], clip([]byte(cpn[0]))), cpn[0])
		}
		r.Count("corpus_events", int64(len(cp))/int64(n))
		checkPrefixes := func(stream []byte, bounds []int) {
			full := decodeMany(stream)
			if full.err != nil || full.panic != "" {
				c.r.Violation("", "valid-stream", fmt.Sprintf("a stream of %d valid events does not decode: err=%v panic=%q stream=%x", len(bounds), full.err, full.panic, clip(stream)), fmt.Sprintf("%x", stream))
				return
			}
			fullLines := bytes.SplitAfter(full.out, []byte("\n"))
			for cut := 0; cut <= len(stream); cut++ {
				res := c.one(stream[:cut], "prefix", false)
				complete := 0
				inside := cut != 0
				for _, b := range bounds {
					if b <= cut {
						complete++
					}
					if b == cut {
						inside = false
					}
				}
				if res.panic != "" {
					continue
				}
				lines := bytes.SplitAfter(res.out, []byte("\n"))
				for k := 0; k < complete; k++ {
					if k >= len(lines) || !bytes.Equal(lines[k], fullLines[k]) {
						c.r.Violation("", "prefix/complete-event", fmt.Sprintf("prefix of %d/%d bytes: complete event %d decoded as %q, in the full stream as %q", cut, len(stream), k, at(lines, k), fullLines[k]), fmt.Sprintf("%x cut=%d", stream, cut))
						break
					}
				}
				// through ConsoleWriter (which renders the first event of what it is given): a single truncated
				// event must be refused, not rendered from the part that arrived
				if inside && len(bounds) == 1 {
					if r3 := throughConsole(stream[:cut]); r3.panic == "" && r3.err == nil {
						c.r.Violation("", "prefix/console-accepts", fmt.Sprintf("prefix of %d/%d bytes ends inside the event, yet ConsoleWriter.Write returned no error and printed %q", cut, len(stream), consoleOut.String()), fmt.Sprintf("%x cut=%d", stream, cut))
					}
				}
				if inside && res.err == nil {
					c.r.Violation("", "prefix/no-error", fmt.Sprintf("prefix of %d/%d bytes ends inside event %d but no error was reported (output %q)", cut, len(stream), complete, res.out), fmt.Sprintf("%x cut=%d", stream, cut))
				}
				if !inside && res.err != nil {
					c.r.Violation("", "prefix/spurious-error", fmt.Sprintf("prefix of %d/%d bytes ends on an event boundary but error %v was reported", cut, len(stream), res.err), fmt.Sprintf("%x cut=%d", stream, cut))
				}
			}
		}
		for i, e := range cp {
			if mine() {
				checkPrefixes(e, []int{len(e)})
			}
			_ = i
		}
		np := 40
		if tier == "thorough" {
			np = 120
		}
		for i := 0; i < np && i < len(cp); i++ {
			for j := 0; j < np && j < len(cp); j++ {
				if !mine() {
					continue
				}
				a, b := cp[(i*13)%len(cp)], cp[(j*7+1)%len(cp)]
				checkPrefixes(append(append([]byte{}, a...), b...), []int{len(a), len(a) + len(b)})
			}
			if r.TimeUp() {
				return
			}
		}
		nt := 12
		if tier == "thorough" {
			nt = 30
		}
		for i := 0; i < nt; i++ {
			for j := 0; j < nt; j++ {
				for k := 0; k < nt; k++ {
					if !mine() {
						continue
					}
					a, b, d := cp[(i*17)%len(cp)], cp[(j*5+2)%len(cp)], cp[(k*11+3)%len(cp)]
					checkPrefixes(append(append(append([]byte{}, a...), b...), d...), []int{len(a), len(a) + len(b), len(a) + len(b) + len(d)})
				}
			}
			if r.TimeUp() {
				return
			}
		}
		// (e) a header that declares far more than the input holds, FOLLOWED by several KiB of real data (more than
		// one read-buffer-full): the decoder may only ever allocate in proportion to what it has actually read
		{
			payload := bytes.Repeat([]byte{'x'}, 9000)
			heads := [][]byte{
				{0x7a, 0x40, 0, 0, 0}, {0x5a, 0x40, 0, 0, 0}, {0x7a, 0x7f, 0xff, 0xff, 0xff}, {0x5a, 0xff, 0xff, 0xff, 0xff},
				{0x7b, 0, 0, 0x01, 0, 0, 0, 0, 0}, {0x5b, 0, 0, 0x01, 0, 0, 0, 0, 0}, {0x7b, 0x80, 0, 0, 0, 0, 0, 0, 0}, {0x5b, 0xff, 0xff, 0xff, 0xff, 0xff, 0xff, 0xff, 0xff},
				{0x7b, 0x7f, 0xff, 0xff, 0xff, 0xff, 0xff, 0xff, 0xff}, {0x9a, 0x40, 0, 0, 0}, {0xba, 0x40, 0, 0, 0}, {0x9b, 0, 0, 0x01, 0, 0, 0, 0, 0},
				{0xd8, 0x3f, 0x5a, 0x40, 0, 0, 0}, {0xd9, 0x01, 0x07, 0x5b, 0, 0, 0x01, 0, 0, 0, 0, 0}, {0xd9, 0x01, 0x06, 0x7a, 0x40, 0, 0, 0},
			}
			for hi, h := range heads {
				for ci, pre := range [][]byte{nil, {0xbf, 0x61, 'k'}, {0xbf, 0x61, 'a', 0x81}, {0xbf, 0x61, 'o', 0xbf, 0x61, 'i'}} {
					if (hi*4+ci)%n != shard {
						continue
					}
					for _, plen := range []int{0, 100, 4096, 9000} {
						in := append(append(append([]byte{}, pre...), h...), payload[:plen]...)
						c.one(in, "hostile-length", true)
					}
				}
			}
		}
		// (d) reader-buffer boundaries: the decoder reads through a 4096-byte bufio.Reader; every byte of a probe
		// event is placed on the first refill boundary once (a padding event in front, 4200 more bytes behind),
		// and the stream must decode to exactly what its events decode to one by one
		{
			padEvent := func(n int) []byte { // a valid event of exactly n bytes (n >= 263): {"p": "xxx..."}
				l := n - 7
				ev := []byte{0xbf, 0x61, 'p', 0x79, byte(l >> 8), byte(l)}
				ev = append(ev, bytes.Repeat([]byte{'x'}, l)...)
				return append(ev, 0xff)
			}
			tail := padEvent(4200)
			tailOut := decodeMany(tail).out
			var probes [][]byte
			for _, e := range cp {
				interesting := len(e) > 60
				for _, b := range e {
					if b >= 0xc0 && b <= 0xdb || b == 0xfa || b == 0xfb || b == 0x1b || b == 0x3b {
						interesting = true
					}
				}
				if interesting {
					probes = append(probes, e)
				}
			}
			maxProbes := 80
			if tier == "thorough" {
				maxProbes = 400
			}
			if len(probes) > maxProbes {
				probes = probes[:maxProbes]
			}
			r.Count("boundary_probes", int64(len(probes))/int64(n))
			for _, e := range probes {
				if !mine() {
					continue
				}
				want1 := decodeMany(e).out
				for off := 0; off <= len(e); off++ {
					pad := padEvent(4096 - off)
					stream := append(append(append([]byte{}, pad...), e...), tail...)
					res := c.one(stream, "boundary", false)
					want := append(append(append([]byte{}, decodeMany(pad).out...), want1...), tailOut...)
					if res.panic != "" {
						continue
					}
					if res.err != nil || !bytes.Equal(res.out, want) {
						lines := bytes.SplitAfter(res.out, []byte("\n"))
						c.r.Violation("", "boundary", fmt.Sprintf("an event whose byte %d lies on the reader's 4096-byte refill boundary decodes as %q (err=%v), alone as %q", off, at(lines, 1), res.err, want1), fmt.Sprintf("%x", stream))
						break
					}
				}
				if r.TimeUp() {
					return
				}
			}
		}
		// (c) single-byte edits
		vals := append([]byte{}, boundary...)
		if tier == "thorough" {
			vals = vals[:0]
			for v := 0; v < 256; v++ {
				vals = append(vals, byte(v))
			}
		}
		for _, e := range cp {
			if !mine() {
				continue
			}
			for off := 0; off < len(e); off++ {
				for _, v := range vals {
					m := append([]byte{}, e...)
					m[off] = v
					c.one(m, "edit/subst", c.memViol < 3 && (v >= 0x40 && v < 0xc0 || true) && riskyAt(m, off))
				}
				if tier == "quick" {
					for bit := uint(0); bit < 8; bit++ {
						m := append([]byte{}, e...)
						m[off] ^= 1 << bit
						c.one(m, "edit/bitflip", c.memViol < 3 && riskyAt(m, off))
					}
				}
				del := append(append([]byte{}, e[:off]...), e[off+1:]...)
				c.one(del, "edit/delete", c.memViol < 3)
				dup := append(append(append([]byte{}, e[:off+1]...), e[off]), e[off+1:]...)
				c.one(dup, "edit/duplicate", c.memViol < 3)
			}
			if r.TimeUp() {
				return
			}
		}
	})
	r.Exit()
}

// riskyAt: the edited byte may now be a header declaring a long length: measure that input individually.
func riskyAt(m []byte, off int) bool {
	b := m[off]
	major, ai := b>>5, b&31
	return (major >= 2 && major <= 5) && ai >= 24 && ai <= 27 || off > 0
}

func at(lines [][]byte, k int) []byte {
	if k < len(lines) {
		return lines[k]
	}
	return nil
}

var _ = exec.Command
