package main

import (
	"bytes"
	"context"
	"errors"
	"fmt"
	"io"
	"strings"

	"github.com/rs/zerolog"

	"verif/oracle/jsonstrict"
	"verif/seq"
	"verif/seqx"
)

// checkWorld: verify the events finalised during the sequence, then probe every live logger.
func checkWorld(r *seq.Run, w *world, seqn []op) {
	r.Transitions += int64(len(seqn))
	desc := func() string { return fmt.Sprint(seqn) }
	sigOf := func(i int) string {
		// known finding: a logger obtained from a Context VALUE that was branched (two field calls on the same value)
		if w.branchedFrom(i) {
			return "context-value-branch"
		}
		return ""
	}
	var sb strings.Builder
	// 1. events finalised inside the sequence
	used := [2]int{}
	for _, ev := range w.pending {
		o := w.objs[ev.owner]
		ex := seqx.ExpectEvent(ev.m, seqx.Entry{Kind: "Info"}, ev.fields, seqx.Final{Kind: "Msg", Text: "ev"})
		wi := ev.m.Writer
		if !ex.Written {
			continue
		}
		if used[wi] >= len(w.lines[wi]) {
			r.Violation(sigOf(ev.owner), "event-missing", fmt.Sprintf("%s: event of logger %d not received by writer %d", desc(), ev.owner, wi), desc())
			continue
		}
		line := w.lines[wi][used[wi]]
		used[wi]++
		sb.Write(line)
		matchLine(r, line, ex.Fields, sigOf(ev.owner), "event", fmt.Sprintf("%s: event finalised on logger %d (%s)", desc(), ev.owner, o.origin), desc())
	}
	for wi := 0; wi < 2; wi++ {
		if used[wi] != len(w.lines[wi]) {
			r.Violation("", "event-extra", fmt.Sprintf("%s: writer %d received %d unexpected lines", desc(), wi, len(w.lines[wi])-used[wi]), desc())
		}
	}
	// GetCtx seen by marshalers inside events: the owner's context (or background)
	// (recorded in order of e.Probe ops)
	pi := 0
	for _, o := range seqn {
		_ = o
	}
	_ = pi
	// 2. probes
	for i, o := range w.objs {
		lg := o.lg
		if o.isCtx {
			lg = o.cx.Logger()
		}
		w.lines = [2][][]byte{}
		w.w.Log.Calls, w.w.Log.Ctxs = nil, nil
		probeErr := seqx.Field{M: "Err", Val: errProbe}
		seqx.ApplyEvent(lg.Info(), probeErr).Msg("probe")
		ex := seqx.ExpectEvent(o.m, seqx.Entry{Kind: "Info"}, []seqx.Field{probeErr}, seqx.Final{Kind: "Msg", Text: "probe"})
		wi := o.m.Writer
		if len(w.lines[wi]) != 1 || len(w.lines[1-wi]) != 0 {
			r.Violation("", "probe-dest", fmt.Sprintf("%s: probe of value %d (%s) produced %d/%d lines on writers %d/%d", desc(), i, o.origin, len(w.lines[wi]), len(w.lines[1-wi]), wi, 1-wi), desc())
			continue
		}
		sb.Write(w.lines[wi][0])
		matchLine(r, w.lines[wi][0], ex.Fields, sigOf(i), "probe", fmt.Sprintf("%s: probe of value %d (%s, parent %d)", desc(), i, o.origin, o.parent), desc())
		if !seqx.MatchHookCalls(w.w.Log.Calls, ex.HookCalls) {
			r.Violation("", "probe-hooks", fmt.Sprintf("%s: probe of value %d: hook calls %v, expected %v", desc(), i, w.w.Log.Calls, ex.HookCalls), desc())
		}
		for _, c := range w.w.Log.Ctxs {
			if got := seqx.CtxID(c); got != o.m.GoCtx {
				r.Violation("", "probe-goctx/"+o.origin, fmt.Sprintf("%s: hook of value %d (%s) read Go context c%d through GetCtx, the logger was given c%d", desc(), i, o.origin, got, o.m.GoCtx), desc())
			}
		}
		// the level of the derivation path: a debug event is written exactly when the model says so (a branch
		// that went through Level(Info) filters it, its siblings and its parent do not)
		{
			w.lines = [2][][]byte{}
			w.w.Log.Calls, w.w.Log.Ctxs = nil, nil
			lg.Debug().Msg("lvl")
			exd := seqx.ExpectEvent(o.m, seqx.Entry{Kind: "Debug"}, nil, seqx.Final{Kind: "Msg", Text: "lvl"})
			n := len(w.lines[0]) + len(w.lines[1])
			if (n == 1) != exd.Written || n > 1 {
				r.Violation("", "probe-level", fmt.Sprintf("%s: debug event of value %d (%s): %d lines written, the derivation path's level is %v (written expected: %v)", desc(), i, o.origin, n, o.m.Level, exd.Written), desc())
			}
		}
		// the probes below exercise state that does not belong to one logger value (the pools, Go contexts): they
		// run on the value this world created last (every value is the last one of some world) and on the root
		heavy := i == len(w.objs)-1 || i == 0
		// loggers travelling in Go contexts: attaching a derived logger to a context that already carries one must
		// yield a new context and leave the first context's logger as it was
		if heavy {
			emit := func(l *zerolog.Logger) string {
				w.lines = [2][][]byte{}
				l.Error().Msg("wc")
				return string(bytes.Join(append(append([][]byte{}, w.lines[0]...), w.lines[1]...), nil))
			}
			child := lg.With().Str("wc", "child").Logger()
			wantParent, wantChild := emit(&lg), emit(&child)
			base := lg.WithContext(context.Background())
			ctx2 := child.WithContext(base)
			gotChild, gotParent := emit(zerolog.Ctx(ctx2)), emit(zerolog.Ctx(base))
			if gotParent != wantParent || gotChild != wantChild {
				r.Violation("", "withcontext", fmt.Sprintf("%s: value %d stored in a Go context, then a child stored in a context derived from it: the first context's logger now emits %q (want %q), the second context's %q (want %q)", desc(), i, gotParent, wantParent, gotChild, wantChild), desc())
			}
		}
		// the sampler of the derivation path (the Sample step's sampler rejects warn events)
		{
			w.lines = [2][][]byte{}
			w.w.Log.Calls, w.w.Log.Ctxs = nil, nil
			lg.Warn().Msg("smp")
			exw := seqx.ExpectEvent(o.m, seqx.Entry{Kind: "Warn"}, nil, seqx.Final{Kind: "Msg", Text: "smp"})
			n := len(w.lines[0]) + len(w.lines[1])
			if (n == 1) != exw.Written || n > 1 {
				r.Violation("", "probe-sampler", fmt.Sprintf("%s: warn event of value %d (%s): %d lines written, sampler on the derivation path: %v (written expected: %v)", desc(), i, o.origin, n, o.m.Sampler, exw.Written), desc())
			}
		}
		// marshalers reached through helpers that are not tied to a logger must see the background context
		var seen []contextRec
		w.seen = nil
		d := zerolog.Dict().Object("o", seqx.CtxProbe{Seen: &w.seen})
		lg.Info().Dict("d", d).Object("q", seqx.CtxProbe{Seen: &w.seen}).Msg("probe2")
		_ = lg.With().Object("co", seqx.CtxProbe{Seen: &w.seen}).Logger()
		_ = seen
		if len(w.seen) == 3 {
			if id := seqx.CtxID(w.seen[0]); id != 0 && id != o.m.GoCtx {
				r.Violation("", "stale-goctx/dict", fmt.Sprintf("%s: a marshaler inside zerolog.Dict() read Go context c%d left behind by another event (logger value %d has c%d)", desc(), id, i, o.m.GoCtx), desc())
			}
			if id := seqx.CtxID(w.seen[1]); id != o.m.GoCtx {
				r.Violation("", "event-goctx", fmt.Sprintf("%s: a marshaler inside an event of value %d read Go context c%d, want c%d", desc(), i, id, o.m.GoCtx), desc())
			}
			if id := seqx.CtxID(w.seen[2]); id != 0 && id != o.m.GoCtx {
				r.Violation("", "stale-goctx/context.object", fmt.Sprintf("%s: a marshaler inside Context.Object read Go context c%d left behind by another event (logger value %d has c%d)", desc(), id, i, o.m.GoCtx), desc())
			}
		} else {
			r.Violation("", "probe-marshalers", fmt.Sprintf("%s: %d of 3 probe marshalers ran", desc(), len(w.seen)), desc())
		}
		if !heavy {
			continue
		}
		// the pools after everything this world did: two events, dicts and arrays opened at the same time are
		// still distinct objects (also after events that borrow scratch arrays / events)
		if d := seqx.PoolProbe(); d != "" {
			r.Violation("", "pool-probe", fmt.Sprintf("%s: the object pools are no longer sound: %s", desc(), d), desc())
		}
		// the scratch paths: marshalers reached through Fields (map and slice), error values that render themselves
		// as objects (Err, Errs, Fields, Array.Err), Array.Object, EmbedObject - on an event and on a Context. Each
		// may see the owner's context or the background one, never another event's
		w.seen = nil
		po, pe := seqx.CtxProbe{Seen: &w.seen}, seqx.CtxProbeErr{Seen: &w.seen}
		{
			// first fill the pool with events that another logger, with another Go context, has finalised
			other := zerolog.New(io.Discard).With().Stack().Ctx(seqx.GoCtx(77)).Logger()
			var open []*zerolog.Event
			for k := 0; k < 6; k++ {
				open = append(open, other.Info().Int("k", k).Err(errProbe))
			}
			for _, e := range open {
				e.Msg("other")
			}
		}
		lg.Info().Fields(map[string]interface{}{"fo": po}).Fields([]interface{}{"fs", po, "fe", pe, "fes", []error{pe}}).
			Err(pe).Errs("es", []error{pe}).Array("a", zerolog.Arr().Object(po).Err(pe)).EmbedObject(po).Msg("probe3")
		nEvent := len(w.seen)
		_ = lg.With().Fields(map[string]interface{}{"fo": po}).Fields([]interface{}{"fe", pe}).Err(pe).Errs("es", []error{pe}).Array("a", zerolog.Arr().Object(po).Err(pe)).EmbedObject(po).Logger()
		if nEvent != 9 || len(w.seen) != 16 {
			r.Violation("", "probe-marshalers", fmt.Sprintf("%s: %d / %d of 9 / 16 scratch-path probe marshalers ran", desc(), nEvent, len(w.seen)), desc())
		}
		// errors added inside scratch events (zerolog.Dict(), array elements, Fields values) never carry a stack
		// field: those events belong to no logger - whatever flag an earlier user of the pooled object had
		{
			w.lines = [2][][]byte{}
			inner := errInObj{}
			lg.Info().Dict("d", zerolog.Dict().Err(errProbe)).Array("a", zerolog.Arr().Object(inner)).
				Fields(map[string]interface{}{"fo": inner}).Fields([]interface{}{"fs", inner}).Msg("probe4")
			for _, l := range append(append([][]byte{}, w.lines[0]...), w.lines[1]...) {
				if bytes.Contains(l, []byte(`"stack"`)) {
					r.Violation("", "stale-stack/scratch", fmt.Sprintf("%s: an error added inside a scratch event (Dict / Arr().Object / Fields value) of logger value %d got a stack field left behind by another logger's event: %s", desc(), i, l), desc())
				}
			}
			if cl := o.cx; o.isCtx {
				_ = cl
			}
			w.lines = [2][][]byte{}
			_ = lg.With().Dict("d", zerolog.Dict().Err(errProbe)).Array("a", zerolog.Arr().Object(inner)).Fields(map[string]interface{}{"fo": inner}).Logger()
		}
		for k, c := range w.seen {
			if id := seqx.CtxID(c); id != 0 && id != o.m.GoCtx {
				where := "an event"
				if k >= nEvent {
					where = "a Context"
				}
				r.Violation("", "stale-goctx/scratch", fmt.Sprintf("%s: scratch-path marshaler #%d of %s (Fields / Err / Errs / Array.Object / Array.Err / EmbedObject) read Go context c%d left behind by another event (logger value %d has c%d)", desc(), k, where, id, i, o.m.GoCtx), desc())
				break
			}
		}
	}
	r.Eval(desc()+sb.String(), len(w.objs) > 2)
}

type contextRec struct{}

var errProbe = errors.New("pe")

// errInObj is an object whose marshaler adds an error field to the (scratch) event it is handed.
type errInObj struct{}

func (errInObj) MarshalZerologObject(e *zerolog.Event) { e.Err(errProbe) }

func matchLine(r *seq.Run, line []byte, want []seqx.KV, sig, key, what, replay string) {
	root, err := jsonstrict.ParseLine(line)
	if err != nil {
		r.Violation(sig, key+"-invalid", fmt.Sprintf("%s: invalid JSON %q: %v", what, line, err), replay)
		return
	}
	if err := seqx.MatchFields(root, want); err != nil {
		r.Violation(sig, key+"-fields", fmt.Sprintf("%s: emitted %q but its own derivation path gives %s: %v", what, line, seqx.Obj(want...), err), replay)
	}
}

// branchedFrom reports whether value i, or one of its ancestors, is a Context value on which (or on an
// ancestor Context value of which) two field calls were made - the aliasing precondition of the known finding.
func (w *world) branchedFrom(i int) bool {
	// count field-call children per context value
	kids := map[int]int{}
	for _, o := range w.objs {
		if o.origin == "c.Str" && o.parent >= 0 {
			kids[o.parent]++
		}
	}
	// UpdateContext on a logger made by Context.Logger() also appends to the shared array
	for j := i; j >= 0; j = w.objs[j].parent {
		p := w.objs[j].parent
		if p >= 0 && w.objs[p].isCtx {
			// siblings that extend the same context value (directly or through Logger()+UpdateContext)
			if w.extenders(p) >= 2 {
				return true
			}
		}
		if w.objs[j].isCtx && w.extenders(j) >= 2 {
			return true
		}
	}
	_ = kids
	return false
}

// extenders counts the values that append to the backing array of context value p.
func (w *world) extenders(p int) int {
	n := 0
	var visit func(j int, viaPlain bool)
	visit = func(j int, viaPlain bool) {
		for k, o := range w.objs {
			if o.parent != j {
				continue
			}
			switch o.origin {
			case "c.Str":
				n++
			case "c.Ctx", "c.Stack":
				visit(k, true) // same backing array, no append yet
			case "c.Logger":
				if w.updated[k] {
					n++
				}
			}
		}
	}
	visit(p, false)
	return n
}
