// Command c05 decides C05 (derived loggers are independent values).
//
// Sequential part (Engine Q, explicit-state search over "logger worlds"): a world holds live Logger and
// Context values plus open events; transitions derive new values from ANY live one (Level, Output, Hook,
// With, field on a Context value, Ctx, Logger(), UpdateContext), open an event, add a field, finalise.
// Every transition sequence up to a depth is replayed on the real zerolog in lock-step with the
// reference model; after the last transition every live logger emits a probe event which must carry
// exactly the fields, hooks, level, stack flag, destination and Go context of its own derivation path.
//
// Concurrent part (Engine S): see conc.go.
package main

import (
	"context"
	"flag"
	"fmt"
	"os"
	"strings"
	"time"

	"github.com/rs/zerolog"

	"verif/drv"
	"verif/seq"
	"verif/seqx"
)

type obj struct {
	isCtx        bool
	lg           zerolog.Logger
	cx           zerolog.Context
	m            seqx.RefLogger
	origin       string // how it was made (for signatures)
	parent       int
	fromCtxValue bool // derived by a field call on a Context VALUE (not directly from With())
}

type openEvent struct {
	e      *zerolog.Event
	owner  int
	fields []seqx.Field
	m      seqx.RefLogger // the owner's model state when the event was opened
}

type world struct {
	objs    []*obj
	events  []*openEvent
	w       *seqx.World
	lines   [2][][]byte
	seen    []context.Context // contexts observed by probe marshalers
	n       int               // counter for fresh names
	pending []*openEvent      // events finalised during the sequence, in order
	updated map[int]bool      // loggers on which UpdateContext was applied
}

type sw struct {
	w   *world
	idx int
}

func (s sw) Write(p []byte) (int, error) {
	s.w.lines[s.idx] = append(s.w.lines[s.idx], append([]byte{}, p...))
	return len(p), nil
}

// an op is (kind, target object/event index)
type op struct {
	kind string
	tgt  int
}

func (o op) String() string { return fmt.Sprintf("%s@%d", o.kind, o.tgt) }

const maxObjs = 6
const maxEvents = 2

func newWorld() *world {
	w := &world{}
	w.w = &seqx.World{Log: &seqx.HookLog{}}
	w.w.Writers = append(w.w.Writers, sw{w, 0}, sw{w, 1})
	root := zerolog.New(sw{w, 0})
	w.objs = append(w.objs, &obj{lg: root, m: seqx.RefLogger{Level: zerolog.TraceLevel}, origin: "New", parent: -1})
	return w
}

// enabled lists the transitions available in the current world.
func (w *world) enabled() []op {
	var out []op
	if len(w.objs) < maxObjs {
		for i, o := range w.objs {
			if o.isCtx {
				out = append(out, op{"c.Str", i}, op{"c.Big", i}, op{"c.BigObj", i}, op{"c.Ctx", i}, op{"c.Logger", i}, op{"c.Stack", i}, op{"c.Reset", i})
			} else {
				out = append(out, op{"l.With", i}, op{"l.Level", i}, op{"l.Output", i}, op{"l.Hook", i}, op{"l.HookCtx", i}, op{"l.WithStr", i}, op{"l.Sample", i})
			}
		}
	}
	for i, o := range w.objs {
		if !o.isCtx && o.origin == "c.Logger" {
			out = append(out, op{"l.UpdateContext", i}, op{"l.UpdateReset", i})
		}
		if !o.isCtx && len(w.events) < maxEvents {
			out = append(out, op{"open", i})
		}
	}
	for i := range w.events {
		out = append(out, op{"e.Str", i}, op{"e.Probe", i}, op{"e.Dict", i}, op{"e.Send", i})
	}
	return out
}

func (w *world) apply(o op) {
	w.n++
	name := func(p string) string { return fmt.Sprintf("%s%d", p, w.n) }
	switch o.kind {
	case "l.With":
		src := w.objs[o.tgt]
		w.objs = append(w.objs, &obj{isCtx: true, cx: src.lg.With(), m: src.m.Clone(), origin: o.kind, parent: o.tgt})
	case "l.WithStr":
		src := w.objs[o.tgt]
		lg, m := seqx.ApplyStep(w.w, src.lg, src.m, seqx.Step{Op: "With", Fields: []seqx.Field{{M: "Str", Key: name("w"), Val: "v"}}})
		w.objs = append(w.objs, &obj{lg: lg, m: m, origin: "c.Logger", parent: o.tgt})
	case "l.Level", "l.Output", "l.Hook", "l.HookCtx", "l.Sample":
		src := w.objs[o.tgt]
		st := seqx.Step{Op: strings.TrimPrefix(o.kind, "l.")}
		if st.Op == "Level" {
			st.Level = zerolog.InfoLevel // (debug events of this branch are filtered from here on: see the level probe)
		}
		if st.Op == "Hook" {
			st.Hooks = []int{w.n}
		}
		lg, m := seqx.ApplyStep(w.w, src.lg, src.m, st)
		w.objs = append(w.objs, &obj{lg: lg, m: m, origin: o.kind, parent: o.tgt})
	case "l.UpdateContext":
		src := w.objs[o.tgt]
		f := seqx.Field{M: "Str", Key: name("u"), Val: "v"}
		src.lg.UpdateContext(func(c zerolog.Context) zerolog.Context { return seqx.ApplyContext(c, f) })
		src.m.Ctx = append(src.m.Ctx, seqx.FieldsExp([]seqx.Field{f})...)
		if w.updated == nil {
			w.updated = map[int]bool{}
		}
		w.updated[o.tgt] = true
	case "l.UpdateReset": // in place: the values copied from this logger earlier (Hook, Level, ...) share its context bytes
		src := w.objs[o.tgt]
		f := seqx.Field{M: "Str", Key: name("r"), Val: "v"}
		src.lg.UpdateContext(func(c zerolog.Context) zerolog.Context { return seqx.ApplyContext(c.Reset(), f) })
		src.m.Ctx = seqx.FieldsExp([]seqx.Field{f})
		if w.updated == nil {
			w.updated = map[int]bool{}
		}
		w.updated[o.tgt] = true
	case "c.Str":
		src := w.objs[o.tgt]
		f := seqx.Field{M: "Str", Key: name("k"), Val: fmt.Sprintf("v%d", w.n)}
		m := src.m.Clone()
		m.Ctx = append(m.Ctx, seqx.FieldsExp([]seqx.Field{f})...)
		w.objs = append(w.objs, &obj{isCtx: true, cx: seqx.ApplyContext(src.cx, f), m: m, origin: o.kind, parent: o.tgt, fromCtxValue: true})
	case "c.Big": // a field that outgrows the 500-byte capacity With() reserves: append reallocates
		src := w.objs[o.tgt]
		f := seqx.Field{M: "Str", Key: name("b"), Val: strings.Repeat("B", 520)}
		m := src.m.Clone()
		m.Ctx = append(m.Ctx, seqx.FieldsExp([]seqx.Field{f})...)
		w.objs = append(w.objs, &obj{isCtx: true, cx: seqx.ApplyContext(src.cx, f), m: m, origin: "c.Str", parent: o.tgt, fromCtxValue: true})
	case "c.BigObj": // an object field larger than the capacity With() reserves (encoded in a pooled scratch event first)
		src := w.objs[o.tgt]
		f := seqx.Field{M: "Object", Key: name("o"), Form: "val", Sub: []seqx.Field{{M: "Str", Key: "s", Val: strings.Repeat("O", 520)}}}
		m := src.m.Clone()
		m.Ctx = append(m.Ctx, seqx.FieldsExp([]seqx.Field{f})...)
		w.objs = append(w.objs, &obj{isCtx: true, cx: seqx.ApplyContext(src.cx, f), m: m, origin: "c.Str", parent: o.tgt, fromCtxValue: true})
	case "c.Reset": // the context fields start over, with one field short enough (5 bytes) to fit into whatever spare room an "empty" context has
		src := w.objs[o.tgt]
		f := seqx.Field{M: "Int", Key: string(rune('a' + w.n%26)), Val: w.n % 10}
		m := src.m.Clone()
		m.Ctx = seqx.FieldsExp([]seqx.Field{f})
		w.objs = append(w.objs, &obj{isCtx: true, cx: seqx.ApplyContext(src.cx.Reset(), f), m: m, origin: "c.Str", parent: o.tgt, fromCtxValue: true})
	case "c.Ctx":
		src := w.objs[o.tgt]
		m := src.m.Clone()
		m.GoCtx = w.n
		w.objs = append(w.objs, &obj{isCtx: true, cx: src.cx.Ctx(seqx.GoCtx(w.n)), m: m, origin: o.kind, parent: o.tgt, fromCtxValue: src.fromCtxValue})
	case "c.Stack":
		src := w.objs[o.tgt]
		m := src.m.Clone()
		m.Stack = true
		w.objs = append(w.objs, &obj{isCtx: true, cx: src.cx.Stack(), m: m, origin: o.kind, parent: o.tgt, fromCtxValue: src.fromCtxValue})
	case "c.Logger":
		src := w.objs[o.tgt]
		w.objs = append(w.objs, &obj{lg: src.cx.Logger(), m: src.m.Clone(), origin: o.kind, parent: o.tgt, fromCtxValue: src.fromCtxValue})
	case "open":
		src := w.objs[o.tgt]
		w.events = append(w.events, &openEvent{e: src.lg.Info(), owner: o.tgt, m: src.m.Clone()})
	case "e.Str":
		ev := w.events[o.tgt]
		f := seqx.Field{M: "Str", Key: name("f"), Val: "x"}
		ev.e = seqx.ApplyEvent(ev.e, f)
		ev.fields = append(ev.fields, f)
	case "e.Dict":
		ev := w.events[o.tgt]
		f := seqx.Field{M: "Dict", Key: name("d"), Sub: []seqx.Field{{M: "Int", Key: "i", Val: w.n}}}
		ev.e = seqx.ApplyEvent(ev.e, f)
		ev.fields = append(ev.fields, f)
	case "e.Probe":
		ev := w.events[o.tgt]
		key := name("p")
		ev.e = ev.e.Object(key, seqx.CtxProbe{Seen: &w.seen})
		ev.fields = append(ev.fields, seqx.Field{M: "Object", Key: key, Form: "val", Sub: []seqx.Field{{M: "Str", Key: "probe", Val: "p"}}})
	case "e.Send":
		ev := w.events[o.tgt]
		ev.e.Msg("ev")
		w.events = append(w.events[:o.tgt], w.events[o.tgt+1:]...)
		// the written line is checked by checkEvent through pending
		w.pending = append(w.pending, ev)
	}
}

func main() {
	drv.WorkerMain(concFactory)
	if os.Getenv("VERIF_RACEPASS") != "" {
		racePass()
	}
	tierF := flag.String("tier", "", "")
	flag.String("prop", "C05", "")
	flag.Parse()
	tier := drv.Tier(*tierF)
	seqx.PinGlobals()
	// the stack flag of a derivation is observable only through a stack marshaler and an error field
	zerolog.ErrorStackMarshaler = func(err error) interface{} { return "STK" }
	r := seq.New("C05", tier, "model_checking")
	defer r.CrashGuard()
	r.Rule = "explicit-state search over logger worlds: every sequence of <= D transitions (derive a Logger/Context from any live value, open an event on any logger, add a field / a GetCtx-recording marshaler, finalise any open event) is replayed on the real zerolog in lock-step with the reference model; after the last transition every live logger emits a probe event (and a Dict()/Context.Object probe reads GetCtx) which must match the logger's own derivation path; states = distinct (transition sequence, probe outputs) , transitions = transitions applied; plus an interleaving exploration (Engine S) of threads deriving from and logging through a shared parent"
	r.Assumptions = []string{"<= 6 live logger/context values, <= 2 open events, transition depth <= 5 (quick) / 6 (thorough)", "sync.Pool hands out the most recently recycled object (LIFO) in the sequential part; the concurrent part explores pool choices as scheduling points"}
	depth := 5
	if tier == "thorough" {
		depth = 6
	}
	if tier == "quick" {
		r.Deadline = time.Now().Add(300 * time.Second)
	} else {
		r.Deadline = time.Now().Add(25 * time.Minute)
	}
	seq.Sharded(r, drv.Workers(), func(r *seq.Run, shard, n int) {
		var idx int64
		var rec func(seqn []op)
		rec = func(seqn []op) {
			if r.TimeUp() {
				return
			}
			idx++
			mine := idx%int64(n) == int64(shard)
			w := replay(seqn)
			if mine && len(seqn) > 0 {
				checkWorld(r, w, seqn)
				if idx%300007 == 1 {
					r.Sample(fmt.Sprintf("%v -> %d live values, probes %s", seqn, len(w.objs), seqx.Render(append(w.lines[0], w.lines[1]...))))
				}
			}
			if len(seqn) == depth {
				return
			}
			en := w.enabled()
			for _, o := range en {
				rec(append(append([]op{}, seqn...), o))
			}
		}
		rec(nil)
	})
	if os.Getenv("VERIF_SHARD") == "" {
		concPart(r, tier)
	}
	r.Exit()
}

func replay(seqn []op) *world {
	w := newWorld()
	for _, o := range seqn {
		w.apply(o)
	}
	return w
}
