package main

import (
	"verif/explore"
	"verif/seq"
)

func concFactory(name string) *explore.Scenario { return nil }

func concPart(r *seq.Run, tier string) {}
