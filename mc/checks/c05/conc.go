package main

import (
	"fmt"
	"os"
	"strings"
	"sync"
	"time"

	"github.com/rs/zerolog"
	"github.com/rs/zerolog/mcrt"

	"verif/drv"
	"verif/explore"
	"verif/seq"
)

// Concurrent part of C05: threads derive loggers from one shared parent (whose context slice has spare
// capacity) and log through different nodes; scheduling points between every derivation / logging step
// and at every pool / atomic operation inside zerolog. Each emitted line must be exactly what the emitting
// node's own derivation path predicts, in every interleaving.

type tagHook struct{ id int }

func (h tagHook) Run(e *zerolog.Event, l zerolog.Level, m string) { e.Int("hook", h.id) }

type dropHook struct{}

func (dropHook) Run(e *zerolog.Event, l zerolog.Level, m string) { e.Discard() }

type concInst struct {
	threads int
	variant string
	w       *lineRec
	w2      *lineRec
	done    []bool
}

type concObj struct{ id int }

func (o concObj) MarshalZerologObject(e *zerolog.Event) { e.Int("id", o.id) }

type lineRec struct{ lines []string }

func (l *lineRec) Write(p []byte) (int, error) {
	l.lines = append(l.lines, string(p))
	return len(p), nil
}

func (c *concInst) Body() {
	c.w, c.w2 = &lineRec{}, &lineRec{}
	parent := zerolog.New(c.w).With().Str("p", "parent").Logger()
	if c.variant == "hooked" {
		parent = parent.Hook(tagHook{100}).Hook(tagHook{101}).Hook(tagHook{102})
	}
	c.done = make([]bool, c.threads)
	for t := 0; t < c.threads; t++ {
		t := t
		mcrt.GoNamed(fmt.Sprintf("d%d", t), false, func() {
			child := parent.With().Int("c", t).Logger()
			mcrt.Point("step")
			hooked := child.Hook(tagHook{t})
			mcrt.Point("step")
			if c.variant == "dropping" {
				// a sibling whose first hook discards every event while a later hook still runs on it: nothing of it is
				// written, and nothing of it may end up in anybody else's event
				drop := child.Hook(dropHook{}).Hook(tagHook{50 + t})
				drop.Info().Str("who", fmt.Sprintf("drop%d", t)).Msg("dropped")
				mcrt.Point("step")
			}
			hooked.Info().Str("who", fmt.Sprintf("hooked%d", t)).Msg("m")
			mcrt.Point("step")
			child.UpdateContext(func(cx zerolog.Context) zerolog.Context { return cx.Int("u", t) })
			mcrt.Point("step")
			if c.variant == "fields" {
				// Fields(map) calls of siblings overlap: their key names and numbers differ, and the marshaler value (sorted
				// first) puts scheduling points inside the loop over the keys
				m := map[string]interface{}{"b": concObj{t}, fmt.Sprintf("k%d", t): t}
				for k := 1; k <= t; k++ {
					m[fmt.Sprintf("a%d", k)] = k
				}
				child.Warn().Str("who", fmt.Sprintf("child%d", t)).Fields(m).Msg("m")
			} else {
				child.Warn().Str("who", fmt.Sprintf("child%d", t)).Msg("m")
			}
			mcrt.Point("step")
			out := parent.Output(c.w2)
			out.Error().Str("who", fmt.Sprintf("out%d", t)).Msg("m")
			mcrt.Point("step")
			parent.Info().Str("who", fmt.Sprintf("parent%d", t)).Msg("m")
			c.done[t] = true
		})
	}
	mcrt.Block("join", nil, func() bool {
		for _, d := range c.done {
			if !d {
				return false
			}
		}
		return true
	})
}

func (c *concInst) Digest() string {
	var ws []string
	for _, l := range append(append([]string{}, c.w.lines...), c.w2.lines...) {
		if i := strings.Index(l, `"who":"`); i >= 0 {
			j := strings.Index(l[i+7:], `"`)
			ws = append(ws, l[i+7:i+7+j])
		}
	}
	return strings.Join(ws, ",")
}

func (c *concInst) ExtraKey() uint64 {
	return explore.HashStrings(c.w.lines...) ^ explore.HashStrings(c.w2.lines...)*3 ^ explore.HashStrings(fmt.Sprint(c.done))
}

func (c *concInst) Check(res *mcrt.Result) []explore.Violation {
	var vs []explore.Violation
	for _, p := range res.Panics {
		vs = append(vs, explore.Violation{Prop: "C05", Msg: "panic: " + strings.SplitN(p, "\n", 2)[0]})
	}
	if res.Capped {
		vs = append(vs, explore.Violation{Prop: "C05", Msg: fmt.Sprintf("execution did not finish within the step limit (%d steps): some thread spins or the run never terminates", res.Steps)})
	}
	if res.Capped || len(res.Panics) > 0 {
		return vs
	}
	ph := ""
	if c.variant == "hooked" {
		ph = `,"hook":100,"hook":101,"hook":102`
	}
	want := map[string]string{}
	dest := map[string]int{}
	for t := 0; t < c.threads; t++ {
		want[fmt.Sprintf("hooked%d", t)] = fmt.Sprintf(`{"level":"info","p":"parent","c":%d,"who":"hooked%d"%s,"hook":%d,"message":"m"}`+"\n", t, t, ph, t)
		fl := ""
		if c.variant == "fields" {
			for k := 1; k <= t; k++ {
				fl += fmt.Sprintf(`,"a%d":%d`, k, k)
			}
			fl += fmt.Sprintf(`,"b":{"id":%d},"k%d":%d`, t, t, t)
		}
		want[fmt.Sprintf("child%d", t)] = fmt.Sprintf(`{"level":"warn","p":"parent","c":%d,"u":%d,"who":"child%d"%s%s,"message":"m"}`+"\n", t, t, t, fl, ph)
		want[fmt.Sprintf("out%d", t)] = fmt.Sprintf(`{"level":"error","p":"parent","who":"out%d"%s,"message":"m"}`+"\n", t, ph)
		dest[fmt.Sprintf("out%d", t)] = 1
		want[fmt.Sprintf("parent%d", t)] = fmt.Sprintf(`{"level":"info","p":"parent","who":"parent%d"%s,"message":"m"}`+"\n", t, ph)
	}
	seen := map[string]int{}
	for wi, lines := range [][]string{c.w.lines, c.w2.lines} {
		for _, l := range lines {
			who := ""
			if i := strings.Index(l, `"who":"`); i >= 0 {
				j := strings.Index(l[i+7:], `"`)
				who = l[i+7 : i+7+j]
			}
			seen[who]++
			if w, ok := want[who]; !ok || w != l {
				vs = append(vs, explore.Violation{Prop: "C05", Msg: fmt.Sprintf("event of node %q is %q, its own derivation path gives %q", who, l, w)})
				return vs
			}
			if dest[who] != wi {
				vs = append(vs, explore.Violation{Prop: "C05", Msg: fmt.Sprintf("event of node %q went to destination %d, want %d", who, wi, dest[who])})
				return vs
			}
		}
	}
	if !res.Deadlock {
		for who := range want {
			if seen[who] != 1 {
				vs = append(vs, explore.Violation{Prop: "C05", Msg: fmt.Sprintf("node %q emitted %d events, want 1", who, seen[who])})
				break
			}
		}
	}
	return vs
}

// racePass: the same derivation/logging steps on real goroutines under -race (mcrt passive).
func racePass() {
	runs := 0
	for _, variant := range []string{"plain", "hooked"} {
		for rep := 0; rep < 300; rep++ {
			var mu sync.Mutex
			w, w2 := &lockedRec{mu: &mu}, &lockedRec{mu: &mu}
			parent := zerolog.New(w).With().Str("p", "parent").Logger()
			if variant == "hooked" {
				parent = parent.Hook(tagHook{100}).Hook(tagHook{101}).Hook(tagHook{102})
			}
			var wg sync.WaitGroup
			for t := 0; t < 3; t++ {
				t := t
				wg.Add(1)
				go func() {
					defer wg.Done()
					child := parent.With().Int("c", t).Logger()
					hooked := child.Hook(tagHook{t})
					hooked.Info().Str("who", "hooked").Msg("m")
					child.UpdateContext(func(cx zerolog.Context) zerolog.Context { return cx.Int("u", t) })
					child.Warn().Str("who", "child").Msg("m")
					out := parent.Output(w2)
					out.Error().Str("who", "out").Msg("m")
					parent.Info().Dict("d", zerolog.Dict().Int("t", t)).Msg("m")
				}()
			}
			wg.Wait()
			runs++
		}
	}
	fmt.Printf("racepass runs=%d\n", runs)
	os.Exit(0)
}

type lockedRec struct {
	mu *sync.Mutex
	n  int
}

func (l *lockedRec) Write(p []byte) (int, error) {
	l.mu.Lock()
	l.n++
	l.mu.Unlock()
	return len(p), nil
}

func concFactory(name string) *explore.Scenario {
	var n int
	parts := strings.SplitN(name, "/", 2)
	if len(parts) != 2 {
		return nil
	}
	if _, err := fmt.Sscanf(parts[0], "T%d", &n); err != nil {
		return nil
	}
	return &explore.Scenario{Name: name, WriterProgress: true, New: func() explore.Instance { return &concInst{threads: n, variant: parts[1]} },
		Setup: func() { zerolog.SetGlobalLevel(zerolog.TraceLevel) }}
}

func concPart(r *seq.Run, tier string) {
	plans := []drv.Plan{
		{Scenario: "T2/plain", Bound: 3, Cache: true, Single: true, MaxSteps: 20000},
		{Scenario: "T2/hooked", Bound: 3, Cache: true, Single: true, MaxSteps: 20000},
		{Scenario: "T2/dropping", Bound: 3, Cache: true, Single: true, MaxSteps: 20000},
		{Scenario: "T2/fields", Bound: 3, Cache: true, Single: true, MaxSteps: 20000},
		{Scenario: "T3/plain", Bound: 2, Cache: true, Single: true, MaxSteps: 20000},
	}
	if tier == "thorough" {
		plans = []drv.Plan{
			{Scenario: "T2/plain", Bound: -1, Cache: true, Single: true, MaxSteps: 20000},
			{Scenario: "T2/hooked", Bound: 6, Cache: true, Single: true, MaxSteps: 20000},
			{Scenario: "T2/dropping", Bound: 4, Cache: true, Single: true, MaxSteps: 20000},
			{Scenario: "T2/fields", Bound: 4, Cache: true, Single: true, MaxSteps: 20000},
			{Scenario: "T3/plain", Bound: 4, Cache: true, Single: true, MaxSteps: 20000},
			{Scenario: "T3/hooked", Bound: 3, Cache: true, Single: true, MaxSteps: 20000},
		}
	}
	stats, err := drv.ExploreAll(concFactory, plans, time.Now().Add(15*time.Minute))
	if err != nil {
		drv.InfraExit("C05", concFactory, stats, err, 20000)
	}
	var execs int64
	for _, st := range stats {
		execs += st.Execs
		r.Transitions += st.Steps
		for k := range st.Outcomes {
			r.Eval(st.Scenario+"|"+k, true)
		}
		r.Evals += st.Execs - int64(len(st.Outcomes))
		if !st.Exhaustive {
			r.Cap(st.Scenario + ":" + st.CapHit)
		}
		for _, s := range st.Samples {
			r.Sample("concurrent " + st.Scenario + ": " + s)
		}
		if os.Getenv("VERIF_VERBOSE") != "" {
			fmt.Printf("  %-20s bound=%d execs=%d steps=%d pruned=%d outcomes=%d exh=%v\n", st.Scenario, st.Bound, st.Execs, st.Steps, st.Pruned, len(st.Outcomes), st.Exhaustive)
		}
	}
	r.Count("concurrent_executions", execs)
	out := drv.Classify("C05", concFactory, stats, 20000)
	r.AddExternal(out.Violations)
	runs, races, note, report, err := drv.RacePass("VERIF_RACE_BIN", "VERIF_RACEPASS")
	if err != nil {
		fmt.Println("INFRA:", err)
		os.Exit(2)
	}
	r.Extra["race_pass"] = map[string]interface{}{"note": note, "runs": runs, "races": races, "technique": "free-running goroutines under the Go race detector; dynamic analysis, not part of the exhaustive claim"}
	r.AddExternal(drv.ReportRace("C05", races, report))
}
