// Command c13 decides C13 (samplers admit exactly the documented share):
//   - Engine F: every history of Sample calls up to a length over a small clock alphabet, for every
//     Burst/Period/Next composition, in lock-step with a reference model (refsampler);
//   - through a Logger: every short history of events/gate changes, comparing what reaches the writer;
//   - Engine S: BasicSampler called from 2-3 threads, every interleaving of the atomic operations.
package main

import (
	"flag"
	"fmt"
	"io/ioutil"
	"strings"
	"time"

	"github.com/rs/zerolog"
	"github.com/rs/zerolog/mcrt"

	"verif/drv"
	"verif/explore"
	"verif/seq"
)

// ---------- reference model (written from the statement) ----------

type ref interface {
	sample(lvl zerolog.Level, now int64) bool
}

type refBasic struct {
	n     uint32
	count uint64
}

func (r *refBasic) sample(zerolog.Level, int64) bool {
	if r.n == 0 {
		return false
	}
	r.count++
	// exactly ceil(k/N) of any k events, the first included: events 1, N+1, 2N+1, ...
	return (r.count-1)%uint64(r.n) == 0
}

type refBurst struct {
	burst  uint32
	period int64
	next   ref
	end    int64 // end of the current window; initially the zero instant
	count  uint32
}

func (r *refBurst) sample(lvl zerolog.Level, now int64) bool {
	if r.burst > 0 && r.period > 0 {
		if now >= r.end { // first event at or after the previous window's end opens a window
			r.end = now + r.period
			r.count = 0
		}
		r.count++
		if r.count <= r.burst {
			return true
		}
	}
	if r.next == nil {
		return false
	}
	return r.next.sample(lvl, now)
}

type refLevel struct{ by map[zerolog.Level]ref }

func (r *refLevel) sample(lvl zerolog.Level, now int64) bool {
	if s, ok := r.by[lvl]; ok && s != nil {
		return s.sample(lvl, now)
	}
	return true
}

// ---------- sampler configurations (impl + model built side by side) ----------

const P = int64(1000)

type cfg struct {
	name string
	mk   func() (zerolog.Sampler, ref)
}

func basicCfg(n uint32) cfg {
	return cfg{fmt.Sprintf("Basic{%d}", n), func() (zerolog.Sampler, ref) {
		return &zerolog.BasicSampler{N: n}, &refBasic{n: n}
	}}
}

func burstCfg(burst uint32, period int64, next *cfg) cfg {
	nn := "nil"
	if next != nil {
		nn = next.name
	}
	return cfg{fmt.Sprintf("Burst{%d,%d,%s}", burst, period, nn), func() (zerolog.Sampler, ref) {
		var ns zerolog.Sampler
		var nr ref
		if next != nil {
			ns, nr = next.mk()
		}
		return &zerolog.BurstSampler{Burst: burst, Period: time.Duration(period), NextSampler: ns}, &refBurst{burst: burst, period: period, next: nr}
	}}
}

func samplerCfgs(tier string) []cfg {
	var out []cfg
	var nexts []*cfg
	nexts = append(nexts, nil)
	for n := uint32(0); n <= 3; n++ {
		c := basicCfg(n)
		out = append(out, c)
		nexts = append(nexts, &c)
	}
	nb := burstCfg(1, P, nil)
	nexts = append(nexts, &nb)
	nb2 := burstCfg(2, 2*P, &out[2])
	nexts = append(nexts, &nb2)
	for burst := uint32(0); burst <= 3; burst++ {
		for _, period := range []int64{0, P} {
			for _, nx := range nexts {
				out = append(out, burstCfg(burst, period, nx))
			}
		}
	}
	return out
}

var clock int64

func init() {
	zerolog.TimestampFunc = func() time.Time { return time.Unix(0, clock) }
}

var levels = []zerolog.Level{zerolog.TraceLevel, zerolog.DebugLevel, zerolog.InfoLevel, zerolog.WarnLevel, zerolog.ErrorLevel, zerolog.FatalLevel, zerolog.NoLevel, zerolog.Level(-5)}

func main() {
	drv.WorkerMain(factory)
	tierF := flag.String("tier", "", "")
	flag.String("prop", "C13", "")
	flag.Parse()
	tier := drv.Tier(*tierF)
	r := seq.New("C13", tier, "model_checking")
	defer r.CrashGuard()
	r.Rule = "one evaluation = one complete history of Sample calls (or of logger events / gate changes, or one interleaving of a concurrent BasicSampler scenario) executed on the real samplers in lock-step with the reference model; distinct = distinct (configuration, admit/reject vector); non-trivial = the vector contains both an admit and a reject"
	r.Assumptions = []string{"clock readings >= 0 from {0,1,P-1,P,P+1,2P,2P+1} (non-monotonic allowed)", "counters below 2^32", "concurrent part: sequentially consistent interleavings of the atomic operations, 2-3 threads"}
	maxLen := 6
	if tier == "thorough" {
		maxLen = 8
	}
	clocks := []int64{0, 1, P - 1, P, P + 1, 2 * P, 2*P + 1}
	cfgs := samplerCfgs(tier)

	// Part 1: direct Sample histories, all clock sequences of length maxLen (shorter histories are their prefixes,
	// and the comparison is made after every call).
	for _, c := range cfgs {
		isBurst := strings.HasPrefix(c.name, "Burst")
		L := maxLen
		alphabet := clocks
		if !isBurst {
			alphabet = clocks[:1]
			L = 12
		}
		idx := make([]int, L)
		for {
			s, m := c.mk()
			var vec []byte
			bad := -1
			for i := 0; i < L; i++ {
				clock = alphabet[idx[i]]
				lvl := levels[i%len(levels)]
				got := s.Sample(lvl)
				want := m.sample(lvl, clock)
				r.Transitions++
				if got {
					vec = append(vec, '1')
				} else {
					vec = append(vec, '0')
				}
				if got != want && bad < 0 {
					bad = i
				}
			}
			nt := strings.Contains(string(vec), "0") && strings.Contains(string(vec), "1")
			r.Eval(c.name+"|"+string(vec), nt)
			if bad >= 0 {
				var cl []int64
				for i := 0; i <= bad; i++ {
					cl = append(cl, alphabet[idx[i]])
				}
				r.Violation("", "direct/"+c.name, fmt.Sprintf("%s: after clock readings %v call #%d returned %v, the model says %v (vector %s)", c.name, cl, bad+1, vec[bad] == '1', vec[bad] != '1', vec), map[string]interface{}{"config": c.name, "clocks": cl})
			}
			if r.Evals%4096 == 0 && len(r.Samples) < 4 {
				r.Sample(fmt.Sprintf("%s clocks=%v -> %s", c.name, func() []int64 {
					var cl []int64
					for i := 0; i < L; i++ {
						cl = append(cl, alphabet[idx[i]])
					}
					return cl
				}(), vec))
			}
			// next index vector
			k := L - 1
			for k >= 0 {
				idx[k]++
				if idx[k] < len(alphabet) {
					break
				}
				idx[k] = 0
				k--
			}
			if k < 0 {
				break
			}
		}
	}
	r.Count("direct_histories", r.Evals)

	// Part 2: LevelSampler wrappings: every assignment of {nil, Basic{2}, Burst{1,P,nil}} to the five level slots,
	// histories of 6 events over all 8 levels (levels without a slot must be admitted).
	levelPart(r, tier)

	// Part 3: through a Logger (level gate first, DisableSampling).
	loggerPart(r, tier)

	// Part 4: BasicSampler from several threads, all interleavings.
	plans := []drv.Plan{}
	for _, sc := range []string{"basic/N2/T2/K2", "basic/N2/T2/K3", "basic/N3/T2/K2", "basic/N2/T3/K1", "basic/N3/T3/K1", "basic/N2/T3/K2", "burstnext/T2/K2"} {
		b := -1
		plans = append(plans, drv.Plan{Scenario: sc, Bound: b, Cache: true, Single: true, MaxSteps: 2000})
	}
	if tier == "thorough" {
		plans = append(plans, drv.Plan{Scenario: "basic/N3/T3/K2", Bound: -1, Cache: true, Single: true, MaxSteps: 2000},
			drv.Plan{Scenario: "basic/N2/T2/K4", Bound: -1, Cache: true, Single: true, MaxSteps: 2000})
	}
	stats, err := drv.ExploreAll(factory, plans, time.Now().Add(10*time.Minute))
	if err != nil {
		drv.InfraExit("C13", factory, stats, err, 2000)
	}
	var execs, steps int64
	for _, st := range stats {
		execs += st.Execs
		steps += st.Steps
		for k := range st.Outcomes {
			r.Eval(st.Scenario+"|"+k, strings.Contains(k, "0") && strings.Contains(k, "1"))
		}
		r.Evals += st.Execs - int64(len(st.Outcomes))
		if !st.Exhaustive {
			r.Cap(st.Scenario + ":" + st.CapHit)
		}
		for _, s := range st.Samples {
			if len(r.Samples) < 8 {
				r.Sample(st.Scenario + ": " + s)
			}
		}
	}
	r.Transitions += steps
	r.Count("concurrent_executions", execs)
	out := drv.Classify("C13", factory, stats, 2000)
	r.AddExternal(out.Violations)
	r.Exit()
}

func levelPart(r *seq.Run, tier string) {
	slots := []func() (zerolog.Sampler, ref){
		func() (zerolog.Sampler, ref) { return nil, nil },
		func() (zerolog.Sampler, ref) { return &zerolog.BasicSampler{N: 2}, &refBasic{n: 2} },
		func() (zerolog.Sampler, ref) {
			return &zerolog.BurstSampler{Burst: 1, Period: time.Duration(P)}, &refBurst{burst: 1, period: P}
		},
	}
	lv := []zerolog.Level{zerolog.TraceLevel, zerolog.DebugLevel, zerolog.InfoLevel, zerolog.WarnLevel, zerolog.ErrorLevel}
	n := 1
	for range lv {
		n *= len(slots)
	}
	for a := 0; a < n; a++ {
		pick := make([]int, len(lv))
		x := a
		for i := range pick {
			pick[i] = x % len(slots)
			x /= len(slots)
		}
		// histories: each of 8 levels twice in two different orders
		for _, order := range [][]int{{0, 1, 2, 3, 4, 5, 6, 7, 0, 1, 2, 3, 4, 5, 6, 7}, {4, 4, 3, 3, 2, 2, 1, 1, 0, 0, 7, 6, 5, 4, 0, 2}} {
			var ls zerolog.LevelSampler
			m := &refLevel{by: map[zerolog.Level]ref{}}
			set := func(i int, dst *zerolog.Sampler) {
				s, rr := slots[pick[i]]()
				if s != nil {
					*dst = s
					m.by[lv[i]] = rr
				}
			}
			set(0, &ls.TraceSampler)
			set(1, &ls.DebugSampler)
			set(2, &ls.InfoSampler)
			set(3, &ls.WarnSampler)
			set(4, &ls.ErrorSampler)
			var vec []byte
			clock = 0
			for _, li := range order {
				got := ls.Sample(levels[li])
				want := m.sample(levels[li], clock)
				r.Transitions++
				if got {
					vec = append(vec, '1')
				} else {
					vec = append(vec, '0')
				}
				if got != want {
					r.Violation("", fmt.Sprint("level/", pick), fmt.Sprintf("LevelSampler slots=%v order=%v: level %v returned %v, model %v", pick, order, levels[li], got, want), nil)
				}
			}
			r.Eval(fmt.Sprint("L", pick, string(vec)), strings.Contains(string(vec), "0"))
		}
	}
}

type recW struct{ lines []string }

func (w *recW) Write(p []byte) (int, error) { w.lines = append(w.lines, string(p)); return len(p), nil }

// loggerPart: histories over {emit event at level l, toggle DisableSampling, set global level} on loggers
// whose sampler is a Burst/Basic composition; gate-rejected events must not advance any counter.
func loggerPart(r *seq.Run, tier string) {
	type op struct {
		kind string
		lvl  zerolog.Level
	}
	ops := []op{{"ev", zerolog.DebugLevel}, {"ev", zerolog.InfoLevel}, {"ev", zerolog.ErrorLevel}, {"ev", zerolog.Disabled}, {"ev", zerolog.NoLevel}, {"ev", zerolog.FatalLevel}, {"ev", zerolog.PanicLevel}, {"write", 0}, {"print", 0}, {"dis-on", 0}, {"dis-off", 0}, {"glob", zerolog.InfoLevel}, {"glob", zerolog.TraceLevel}, {"tick", 0}}
	L := 5
	if tier == "thorough" {
		L = 7
	}
	cfgs := []cfg{basicCfg(0), basicCfg(1), basicCfg(2), basicCfg(3), burstCfg(1, P, nil), burstCfg(2, P, func() *cfg { c := basicCfg(2); return &c }())}
	// the sampled logger is used as built, or after one more derivation that must keep the sampler (Output to the
	// same destination, a child context, a hook, the level set after the sampler instead of before): the shorter
	// histories suffice there
	Lfull := L
	derivations := []string{"direct", "output", "with", "hook", "level-after"}
	for di, derivation := range derivations {
		L := Lfull
		if di > 0 {
			L = Lfull - 2
		}
		for _, c := range cfgs {
			for _, loggerLevel := range []zerolog.Level{zerolog.TraceLevel, zerolog.InfoLevel} {
				idx := make([]int, L)
				for {
					s, m := c.mk()
					w := &recW{}
					lg := zerolog.New(w).Level(loggerLevel).Sample(s)
					switch derivation {
					case "output":
						lg = zerolog.New(ioutil.Discard).Level(loggerLevel).Sample(s).Output(w)
					case "with":
						lg = lg.With().Str("c", "x").Logger()
					case "hook":
						lg = lg.Hook(zerolog.HookFunc(func(*zerolog.Event, zerolog.Level, string) {}))
					case "level-after":
						lg = zerolog.New(w).Sample(s).Level(loggerLevel)
					}
					zerolog.SetGlobalLevel(zerolog.TraceLevel)
					zerolog.DisableSampling(false)
					disabled := false
					glob := zerolog.TraceLevel
					clock = 0
					var want []string
					var hist []string
					for i := 0; i < L; i++ {
						o := ops[idx[i]]
						r.Transitions++
						switch o.kind {
						case "ev":
							tag := fmt.Sprintf("e%d", i)
							hist = append(hist, fmt.Sprintf("%v(%s)", o.lvl, tag))
							lg.WithLevel(o.lvl).Str("t", tag).Send()
							// WithLevel(Disabled) is never written and, like every event the gate rejects, costs no budget
							if o.lvl != zerolog.Disabled && o.lvl >= loggerLevel && o.lvl >= glob {
								if disabled || m.sample(o.lvl, clock) {
									want = append(want, tag)
								}
							}
						case "write", "print":
							// the logger as an io.Writer (the standard library's log bridge) emits one NoLevel event, Print one
							// debug event: each consults the sampler exactly once
							tag := fmt.Sprintf("e%d", i)
							lvl := zerolog.NoLevel
							if o.kind == "write" {
								hist = append(hist, fmt.Sprintf("Write(%s)", tag))
								wlg := lg.With().Str("t", tag).Logger()
								wlg.Write([]byte("w"))
							} else {
								lvl = zerolog.DebugLevel
								hist = append(hist, fmt.Sprintf("Print(%s)", tag))
								plg := lg.With().Str("t", tag).Logger()
								plg.Print("p")
							}
							if lvl >= loggerLevel && lvl >= glob {
								if disabled || m.sample(lvl, clock) {
									want = append(want, tag)
								}
							}
						case "dis-on", "dis-off": // a setter, not a toggle: the same value may be set twice in a row
							disabled = o.kind == "dis-on"
							zerolog.DisableSampling(disabled)
							hist = append(hist, fmt.Sprintf("DisableSampling(%v)", disabled))
						case "glob":
							glob = o.lvl
							zerolog.SetGlobalLevel(glob)
							hist = append(hist, fmt.Sprintf("SetGlobalLevel(%v)", glob))
						case "tick":
							clock += P
							hist = append(hist, "clock+=P")
						}
					}
					var got []string
					for _, l := range w.lines {
						i := strings.Index(l, `"t":"`)
						j := strings.Index(l[i+5:], `"`)
						got = append(got, l[i+5:i+5+j])
					}
					outcome := fmt.Sprint(derivation, c.name, loggerLevel, got)
					r.Eval(outcome, len(got) > 0 && len(got) < L)
					if fmt.Sprint(got) != fmt.Sprint(want) {
						r.Violation("", "logger/"+c.name, fmt.Sprintf("logger(level=%v).Sample(%s) [%s], history %v: writer received %v, model expects %v", loggerLevel, c.name, derivation, hist, got, want), map[string]interface{}{"history": hist})
					}
					if r.Evals%50000 == 0 && len(r.Samples) < 7 {
						r.Sample(fmt.Sprintf("logger %s level=%v history=%v -> %v", c.name, loggerLevel, hist, got))
					}
					k := L - 1
					for k >= 0 {
						idx[k]++
						if idx[k] < len(ops) {
							break
						}
						idx[k] = 0
						k--
					}
					if k < 0 {
						break
					}
				}
			}
		}
	}
	zerolog.SetGlobalLevel(zerolog.TraceLevel)
	zerolog.DisableSampling(false)
}

// ---------- concurrent scenarios ----------

type cinst struct {
	n, threads, k int
	burst         bool
	res           [][]bool
	done          []bool
}

func (c *cinst) Body() {
	var s zerolog.Sampler
	if c.burst {
		s = &zerolog.BurstSampler{Burst: 0, Period: 0, NextSampler: &zerolog.BasicSampler{N: uint32(c.n)}}
	} else {
		s = &zerolog.BasicSampler{N: uint32(c.n)}
	}
	c.res = make([][]bool, c.threads)
	c.done = make([]bool, c.threads)
	for t := 0; t < c.threads; t++ {
		t := t
		mcrt.GoNamed(fmt.Sprintf("s%d", t), false, func() {
			for i := 0; i < c.k; i++ {
				c.res[t] = append(c.res[t], s.Sample(zerolog.InfoLevel))
			}
			c.done[t] = true
		})
	}
	mcrt.Block("join", nil, func() bool {
		for _, d := range c.done {
			if !d {
				return false
			}
		}
		return true
	})
}

func (c *cinst) Digest() string {
	var sb strings.Builder
	for _, r := range c.res {
		for _, b := range r {
			if b {
				sb.WriteByte('1')
			} else {
				sb.WriteByte('0')
			}
		}
		sb.WriteByte('/')
	}
	return sb.String()
}

func (c *cinst) ExtraKey() uint64 { return explore.HashStrings(c.Digest()) }

func (c *cinst) Check(res *mcrt.Result) []explore.Violation {
	var vs []explore.Violation
	if res.Deadlock || len(res.Panics) > 0 || res.Capped {
		vs = append(vs, explore.Violation{Prop: "C13", Msg: fmt.Sprintf("deadlock=%v capped=%v panics=%v", res.Deadlock, res.Capped, res.Panics)})
		return vs
	}
	total := c.threads * c.k
	adm := strings.Count(c.Digest(), "1")
	want := (total + c.n - 1) / c.n
	if adm != want {
		vs = append(vs, explore.Violation{Prop: "C13", Msg: fmt.Sprintf("BasicSampler{N:%d}: %d calls from %d threads admitted %d, want ceil(k/N)=%d (results %s)", c.n, total, c.threads, adm, want, c.Digest())})
	}
	return vs
}

func factory(name string) *explore.Scenario {
	var n, t, k int
	if _, err := fmt.Sscanf(name, "basic/N%d/T%d/K%d", &n, &t, &k); err == nil {
		return &explore.Scenario{Name: name, New: func() explore.Instance { return &cinst{n: n, threads: t, k: k} }}
	}
	if _, err := fmt.Sscanf(name, "burstnext/T%d/K%d", &t, &k); err == nil {
		return &explore.Scenario{Name: name, New: func() explore.Instance { return &cinst{n: 2, threads: t, k: k, burst: true} }}
	}
	return nil
}
