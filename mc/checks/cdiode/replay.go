package main

import (
	"encoding/json"
	"fmt"
	"os"

	"verif/explore"
)

func doReplay(path string) int {
	b, err := os.ReadFile(path)
	if err != nil {
		fmt.Println("replay:", err)
		return 2
	}
	var r struct {
		Property string `json:"property"`
		Scenario string `json:"scenario"`
		Choices  []int  `json:"choices"`
	}
	if err := json.Unmarshal(b, &r); err != nil {
		fmt.Println("replay:", err)
		return 2
	}
	sc := factory(r.Scenario)
	if sc == nil {
		fmt.Println("replay: unknown scenario", r.Scenario)
		return 2
	}
	inst, res, trace := explore.Replay(sc, r.Choices, 4000)
	for _, l := range trace {
		fmt.Println(l)
	}
	fmt.Println("schedule:", explore.FormatSchedule(res))
	fmt.Println("outcome:", inst.Digest())
	code := 0
	for _, v := range inst.Check(res) {
		fmt.Printf("violated %s sig=%q: %s\n", v.Prop, v.Sig, v.Msg)
		if v.Prop == r.Property {
			code = 1
		}
	}
	return code
}
