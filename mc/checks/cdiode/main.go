// Command cdiode decides C10, C11 and C12 by exhaustive interleaving exploration of the real
// diode.Writer (overlay-instrumented) under the mcrt scheduler.
package main

import (
	"flag"
	"fmt"
	"os"
	"time"

	"verif/drv"
	"verif/explore"
)

func plans(prop, tier string) []drv.Plan {
	var ps []drv.Plan
	add := func(P, W, N int, mode, rec, end string, bound int) {
		ps = append(ps, drv.Plan{Scenario: fmt.Sprintf("P%dW%dN%d/%s/%s/%s", P, W, N, mode, rec, end), Bound: bound, MaxSteps: 4000, Cache: true, Single: true})
	}
	type shape struct{ P, W, N int }
	q := tier == "quick"
	shapes := []shape{{1, 3, 2}, {2, 1, 1}, {2, 2, 1}, {2, 2, 2}, {2, 2, 3}, {3, 1, 2}, {2, 3, 2}, {2, 2, 5}, {1, 5, 2}, {1, 6, 1}, {2, 3, 1}}
	if !q {
		shapes = append(shapes, shape{3, 2, 2})
	}
	small := []shape{{1, 2, 1}, {1, 2, 2}, {2, 1, 1}, {2, 1, 2}, {1, 2, 4}, {2, 1, 4}, {2, 2, 2}, {2, 2, 4}}

	switch prop {
	case "C10":
		b := 2
		if !q {
			b = 3
		}
		for _, s := range shapes {
			bb := b
			if !q && s.P*s.W <= 3 {
				bb = 4
			}
			for _, mode := range []string{"waiter", "poller"} {
				add(s.P, s.W, s.N, mode, "normal", "close", bb)
				if s.P*s.W <= 4 || !q {
					add(s.P, s.W, s.N, mode, "block1", "noclose", bb)
				}
				if !q {
					add(s.P, s.W, s.N, mode, "block2", "noclose", bb)
				}
			}
		}
		// Close racing with the Writes: a Write issued while Close drains still returns at once, deliveries stay one at
		// a time, in order, each the argument of one Write
		for _, s := range []shape{{1, 2, 2}, {2, 1, 2}, {1, 3, 1}} {
			for _, mode := range []string{"waiter", "poller"} {
				add(s.P, s.W, s.N, mode, "normal", "closeearly", b)
			}
		}
		// no alerter: overflowing the ring must stay silent - the destination only ever receives what was written
		for _, s := range []shape{{1, 3, 1}, {2, 2, 1}, {1, 4, 2}} {
			for _, mode := range []string{"waiter-na", "poller-na"} {
				add(s.P, s.W, s.N, mode, "normal", "close", b)
				add(s.P, s.W, s.N, mode, "block1", "noclose", b)
			}
		}
		// a destination that reports an error for one delivery: still exactly one delivery per Write
		for _, s := range []shape{{1, 2, 2}, {2, 1, 1}, {1, 3, 2}} {
			for _, mode := range []string{"waiter", "poller"} {
				add(s.P, s.W, s.N, mode, "err1", "close", b)
				if !q {
					add(s.P, s.W, s.N, mode, "err2", "close", b)
				}
			}
		}
	case "C11":
		b := 2
		if !q {
			b = 3
		}
		for _, s := range shapes {
			bb := b
			if !q && s.P*s.W <= 3 {
				bb = 4
			}
			for _, mode := range []string{"waiter", "poller"} {
				add(s.P, s.W, s.N, mode, "normal", "close", bb)
			}
		}
		// a destination error for one delivery must not end the deliveries: everything written afterwards still
		// arrives or is reported
		for _, s := range []shape{{1, 3, 4}, {2, 1, 2}, {1, 3, 1}} {
			for _, mode := range []string{"waiter", "poller"} {
				add(s.P, s.W, s.N, mode, "err1", "close", b)
				add(s.P, s.W, s.N, mode, "err1", "noclose", b)
			}
		}
		// Close racing with the Writes: nothing published into a ring that never overflowed may vanish
		for _, s := range []shape{{1, 1, 1}, {1, 2, 2}, {2, 1, 2}} {
			for _, mode := range []string{"waiter", "poller"} {
				add(s.P, s.W, s.N, mode, "normal", "closeearly", 3)
			}
		}
		// two overlapping Close calls: either one returning means everything was delivered or reported
		for _, s := range []shape{{1, 1, 1}, {1, 2, 2}, {1, 3, 1}} {
			for _, mode := range []string{"waiter", "poller"} {
				add(s.P, s.W, s.N, mode, "normal", "closepair", b)
			}
		}
		for _, s := range []shape{{1, 1, 1}, {1, 2, 2}, {2, 1, 1}, {2, 1, 4}} {
			for _, mode := range []string{"waiter", "poller"} {
				add(s.P, s.W, s.N, mode, "normal", "fatal", b)
			}
		}
		for _, s := range []shape{{1, 1, 1}, {1, 2, 2}} {
			for _, mode := range []string{"waiter", "poller"} {
				add(s.P, s.W, s.N, mode, "normal", "fatal2", b)
			}
		}
	case "C12":
		b := 3
		if !q {
			b = 5
		}
		for _, s := range small {
			bb := b
			if q && s.P*s.W >= 4 {
				bb = 2 // (quick: the four-write shapes at bound 2; the state key keeps threads that ran their first segment early apart, which triples these)
			}
			for _, mode := range []string{"waiter", "poller"} {
				add(s.P, s.W, s.N, mode, "normal", "noclose", bb)
				add(s.P, s.W, s.N, mode, "normal", "close", bb)
			}
		}
		// a writer that is closed without ever having been written to (every event was filtered out)
		for _, mode := range []string{"waiter", "poller"} {
			add(1, 0, 1, mode, "normal", "close", b)
			add(1, 0, 2, mode, "normal", "closeearly", b)
			add(1, 0, 1, mode, "normal", "noclose", b)
		}
		// Close called again on a closed writer (sequentially, or after a Close that raced with the Writes)
		for _, s := range []shape{{1, 1, 1}, {1, 0, 1}, {2, 1, 2}} {
			for _, mode := range []string{"waiter", "poller"} {
				add(s.P, s.W, s.N, mode, "normal", "close2", b)
				add(s.P, s.W, s.N, mode, "normal", "closerace", b)
			}
		}
		// Close racing with the Writes: it must still return, and no producer may block
		for _, s := range []shape{{1, 1, 1}, {1, 2, 2}, {2, 1, 2}, {1, 2, 1}} {
			for _, mode := range []string{"waiter", "poller"} {
				add(s.P, s.W, s.N, mode, "normal", "closeearly", b)
			}
		}
	}
	return ps
}

func main() {
	drv.WorkerMain(factory)
	prop := flag.String("prop", "", "C10 | C11 | C12")
	tierF := flag.String("tier", "", "quick | thorough")
	replay := flag.String("replay", "", "replay file to re-execute")
	one := flag.String("scenario", "", "explore only this scenario")
	boundF := flag.Int("bound", -2, "override bound")
	cacheF := flag.Bool("cache", false, "use the state cache")
	flag.Parse()
	if *replay != "" {
		os.Exit(doReplay(*replay))
	}
	tier := drv.Tier(*tierF)
	t0 := time.Now()
	if os.Getenv("VERIF_PROF") != "" && *one != "" {
		// profiling aid: explore one scenario in-process
		stop := startProf()
		st := explore.Explore(factory(*one), explore.Options{Bound: *boundF, Cache: true, MaxSteps: 4000})
		stop()
		fmt.Printf("execs=%d steps=%d wall=%.1f\n", st.Execs, st.Steps, st.WallS)
		os.Exit(0)
	}
	ps := plans(*prop, tier)
	if *one != "" {
		ps = []drv.Plan{{Scenario: *one, Bound: 2, MaxSteps: 4000}}
	}
	for i := range ps {
		if *boundF != -2 {
			ps[i].Bound = *boundF
		}
		if *cacheF {
			ps[i].Cache = true
			ps[i].Single = true
		}
	}
	budget := 20 * time.Minute
	if tier == "quick" {
		budget = 4 * time.Minute
	}
	stats, err := drv.ExploreAll(factory, ps, t0.Add(budget))
	if err != nil {
		drv.InfraExit(*prop, factory, stats, err, 4000)
	}
	if os.Getenv("VERIF_VERBOSE") != "" {
		for _, st := range stats {
			fmt.Printf("  %-40s bound=%d execs=%d steps=%d pruned=%d outcomes=%d exh=%v found=%v wall=%.1f\n", st.Scenario, st.Bound, st.Execs, st.Steps, st.Pruned, len(st.Outcomes), st.Exhaustive, st.FoundBySig, st.WallS)
		}
	}
	out := drv.Classify(*prop, factory, stats, 4000)
	writeEvidence(*prop, tier, stats, out, time.Since(t0))
	if out.Violations > 0 {
		os.Exit(1)
	}
}

func writeEvidence(prop, tier string, stats []*explore.Stats, out *drv.Outcome, wall time.Duration) {
	var execs, steps, points, contended, states, deadlocks, quiescent int64
	outcomes := map[string]bool{}
	exhaustive := true
	var caps []string
	var perScenario []map[string]interface{}
	var samples []interface{}
	maxDepth := 0
	for _, st := range stats {
		execs += st.Execs
		steps += st.Steps
		points += st.Points
		contended += st.Contended
		deadlocks += st.Deadlocks
		quiescent += st.Quiescent
		for k := range st.Outcomes {
			outcomes[st.Scenario+"|"+k] = true
		}
		states += int64(len(st.Outcomes))
		if !st.Exhaustive {
			exhaustive = false
			caps = append(caps, st.Scenario+":"+st.CapHit)
		}
		if st.MaxDepth > maxDepth {
			maxDepth = st.MaxDepth
		}
		perScenario = append(perScenario, map[string]interface{}{
			"scenario": st.Scenario, "bound": st.Bound, "executions": st.Execs, "steps": st.Steps,
			"distinct_outcomes": len(st.Outcomes), "exhaustive_within_bound": st.Exhaustive, "found_by_sig": st.FoundBySig,
		})
		for _, s := range st.Samples {
			if len(samples) < 8 {
				samples = append(samples, st.Scenario+": "+s)
			}
		}
	}
	if len(samples) == 0 {
		samples = append(samples, "no samples recorded")
	}
	ev := &drv.Evidence{
		PropertyID: prop, Tier: tier, Level: "model_checking",
		Coverage: map[string]interface{}{
			"states":                        states,
			"transitions":                   steps,
			"traces_validated_against_impl": execs,
			"evaluations":                   execs,
			"distinct_nontrivial":           len(outcomes),
			"rule":                          "one evaluation = one complete execution of the real diode.Writer under the controlled scheduler (stateless DFS, iterative preemption bound); states = distinct terminal observations (delivered sequence, alerts, producer/Close status) per scenario; non-trivial = distinct terminal observation of an execution in a scenario with >=2 threads touching the ring",
			"samples":                       samples,
			"exhaustive":                    exhaustive,
			"caps_hit":                      caps,
			"choice_points":                 points,
			"executions_with_choice":        contended,
			"max_choice_depth":              maxDepth,
			"terminal_deadlocks":            deadlocks,
			"terminal_quiescent":            quiescent,
			"scenarios":                     perScenario,
			"known_findings_seen":           out.KnownSeen,
		},
		Assumptions: []string{
			"sequentially consistent interleavings of the hooked operations (sync, sync/atomic, go, channel close/receive, Sleep, Pool); Go's atomics are SC",
			"plain unsynchronised accesses are not interleaved (race pass is separate)",
			"bounds: threads/writes/ring sizes and preemption bound as listed per scenario",
			"time.Sleep in the poller is modelled as 'wait until another thread made a step'",
		},
		WallS:      wall.Seconds(),
		Violations: out.Violations,
	}
	if err := drv.WriteEvidence(ev); err != nil {
		fmt.Println("INFRA: cannot write evidence:", err)
		os.Exit(2)
	}
	fmt.Printf("%s %s: scenarios=%d executions=%d steps=%d distinct_outcomes=%d exhaustive=%v violations=%d known=%v wall=%.1fs\n",
		prop, tier, len(stats), execs, steps, len(outcomes), exhaustive, out.Violations, out.KnownSeen, wall.Seconds())
}
