package main

import (
	"os"
	"runtime/pprof"
)

func startProf() func() {
	if p := os.Getenv("VERIF_PROF"); p != "" {
		f, _ := os.Create(p)
		pprof.StartCPUProfile(f)
		return func() { pprof.StopCPUProfile(); f.Close() }
	}
	return func() {}
}
