package main

import (
	"errors"
	"fmt"
	"os"
	"reflect"
	"strings"
	"time"
	"unsafe"

	"github.com/rs/zerolog"
	"github.com/rs/zerolog/diode"
	"github.com/rs/zerolog/mcrt"

	"verif/explore"
)

// A diode scenario: P producers x W writes each through diode.NewWriter of ring size N.
//
//	name = P<p>W<w>N<n>/<waiter|poller>/<normal|block1|block2|err1|err2>/<close|noclose|fatal|fatal2|closeearly|close2|closerace|closepair>
type params struct {
	P, W, N  int
	Mode     string // waiter | poller
	NilAlert bool   // NewWriter gets a nil alerter
	Rec      string // normal | block1 | block2
	End      string // close | noclose | fatal
}

func parseName(name string) (params, bool) {
	var p params
	parts := strings.Split(name, "/")
	if len(parts) != 4 {
		return p, false
	}
	if _, err := fmt.Sscanf(parts[0], "P%dW%dN%d", &p.P, &p.W, &p.N); err != nil {
		return p, false
	}
	p.Mode, p.Rec, p.End = parts[1], parts[2], parts[3]
	if strings.HasSuffix(p.Mode, "-na") { // no alerter given to NewWriter: drops are not reported to anyone
		p.Mode, p.NilAlert = strings.TrimSuffix(p.Mode, "-na"), true
	}
	return p, true
}

func (p params) name() string {
	mode := p.Mode
	if p.NilAlert {
		mode += "-na"
	}
	return fmt.Sprintf("P%dW%dN%d/%s/%s/%s", p.P, p.W, p.N, mode, p.Rec, p.End)
}

type inst struct {
	p params

	written         []string // every message handed to Write, in (producer, index) order
	callStep        map[string]int
	retStep         map[string]int
	delivered       []string
	delivStep       []int
	alerts          []int
	inWrite         int
	overlap         bool
	mutated         []string
	prodDone        []bool
	closeRet        bool
	closeSnaps      [][2]int // (delivered, reported) at the moment each Close of a closepair scenario returned
	closeRet2       bool
	closeCalledStep int
	wcalls          int
	mon             uint64
	deliveredB      []string   // second diode writer of the fatal2 scenarios
	called          int        // Writes called so far
	remaining       func() int // messages still sitting in the ring (read from the diode's internals; -1 if not recognised)
	maxOut          int        // largest number of messages ever outstanding (written, delivery not begun)
}

type recWriterB struct{ in *inst }

func (r recWriterB) Write(b []byte) (int, error) {
	mcrt.Point("wB.enter")
	r.in.deliveredB = append(r.in.deliveredB, string(b))
	r.in.bump(9, string(b))
	return len(b), nil
}

func msgOf(p, w int) string {
	if p == 0 && w == 2 {
		return "" // an empty Write is a message like any other: handed to the destination once, or reported
	}
	m := fmt.Sprintf("p%dw%d-%s\n", p, w, strings.Repeat(string(rune('a'+p*4+w)), 3))
	if (p+2*w)%3 == 1 {
		// every third message is exactly as long as the capacity of a fresh pooled copy buffer (500 bytes): a
		// length on which "did the copy fit / was it reallocated" decisions flip
		m = m[:len(m)-1] + strings.Repeat(string(rune('A'+p*4+w)), 500-len(m)) + "\n"
	}
	return m
}

type recWriter struct{ in *inst }

func (r recWriter) Write(b []byte) (int, error) {
	in := r.in
	in.wcalls++
	if in.inWrite > 0 {
		in.overlap = true
	}
	in.inWrite++
	entry := string(b)
	in.bump(1, entry)
	mcrt.Point("w.enter")
	if (in.p.Rec == "block1" && in.wcalls == 1) || (in.p.Rec == "block2" && in.wcalls == 2) {
		mcrt.BlockForever("w.blocked")
		// only reached while the execution is being torn down
		return len(b), nil
	}
	in.delivered = append(in.delivered, entry)
	mcrt.Point("w.exit")
	if string(b) != entry {
		in.mutated = append(in.mutated, fmt.Sprintf("%q became %q while the wrapped Write was running", entry, string(b)))
		in.bump(2, string(b))
	}
	in.inWrite--
	in.bump(3, "")
	if (in.p.Rec == "err1" && in.wcalls == 1) || (in.p.Rec == "err2" && in.wcalls == 2) {
		// the destination took the buffer and reports a failure: that delivery still counts as the one delivery
		return 0, errDest
	}
	return len(b), nil
}

var errDest = errors.New("destination failed")

func newInst(p params) *inst {
	in := &inst{p: p, callStep: map[string]int{}, retStep: map[string]int{}, prodDone: make([]bool, p.P)}
	return in
}

var stepClock int

var bigBufs [8][]byte

// bigBuf returns a reusable zero-length slice of capacity 70000 (one per producer; contents are scribbled
// over after each Write anyway, exactly like a recycled zerolog buffer).
func bigBuf(p int) []byte {
	if bigBufs[p%8] == nil {
		bigBufs[p%8] = make([]byte, 0, 70000)
	}
	return bigBufs[p%8][:0]
}

var prodNames = []string{"prod0", "prod1", "prod2", "prod3", "prod4", "prod5"}

func (in *inst) Body() {
	p := in.p
	var interval time.Duration
	if p.Mode == "poller" {
		interval = time.Millisecond
	}
	mcrt.DaemonNext = true
	var alerter diode.Alerter = func(missed int) { in.alerts = append(in.alerts, missed); in.bump(4+uint64(missed)*16, "") }
	if p.NilAlert {
		alerter = nil
	}
	dw := diode.NewWriter(recWriter{in}, p.N, interval, alerter)
	in.remaining = func() int { return ringRemaining(&dw) }
	mcrt.DaemonNext = false
	var logger zerolog.Logger
	if p.End == "fatal" {
		logger = zerolog.New(dw)
	}
	if p.End == "fatal2" {
		// the Fatal path through a MultiLevelWriter over TWO diode writers: both must be drained before exit
		mcrt.DaemonNext = true
		dwB := diode.NewWriter(recWriterB{in}, p.N, interval, func(missed int) { in.bump(10, "") })
		mcrt.DaemonNext = false
		logger = zerolog.New(zerolog.MultiLevelWriter(dw, dwB))
	}
	clock := 0
	for pi := 0; pi < p.P; pi++ {
		pi := pi
		mcrt.GoNamed(prodNames[pi], false, func() {
			for w := 0; w < p.W; w++ {
				m := msgOf(pi, w)
				in.written = append(in.written, m)
				var buf []byte
				if (pi+w)%2 == 0 {
					// a short message in a buffer of large capacity (zerolog's own pooled buffers may have grown
					// beyond 64 KiB): what the ring holds must still be a private copy
					buf = append(bigBuf(pi), m...)
				} else {
					buf = []byte(m)
				}
				clock++
				in.callStep[m] = clock
				// outstanding = Writes called so far (this one included) minus deliveries that have begun
				in.called++
				if out := in.called - len(in.delivered); out > in.maxOut {
					in.maxOut = out
				}
				in.bump(8+uint64(in.maxOut)*16, m) // the oracle depends on it, so the state key must too
				n, err := dw.Write(buf)
				clock++
				in.retStep[m] = clock
				// real-time order between Writes is part of the oracle, hence of the state
				in.bump(5, m)
				if n != len(m) || err != nil {
					in.mutated = append(in.mutated, fmt.Sprintf("Write(%q) returned (%d,%v)", m, n, err))
				}
				// the caller owns buf again (zerolog recycles it): scribble over it
				for i := range buf {
					buf[i] = '#'
				}
			}
			in.prodDone[pi] = true
			in.bump(6+uint64(pi)*16, "")
		})
	}
	if p.End == "closeearly" || p.End == "closerace" {
		// Close racing with the Writes (a shutdown path that does not wait for the producers)
		mcrt.GoNamed("closer", false, func() {
			dw.Close()
			in.closeRet = true
			in.bump(7, "")
		})
	}
	mcrt.Block("join", nil, func() bool {
		for _, d := range in.prodDone {
			if !d {
				return false
			}
		}
		return (p.End != "closeearly" && p.End != "closerace") || in.closeRet
	})
	switch p.End {
	case "close":
		dw.Close()
		in.closeRet = true
		in.bump(7, "")
	case "closepair":
		// two overlapping Close calls after the last Write returned (a shutdown path racing the Fatal path): what was
		// written is delivered or reported when EITHER of them returns, not only when the first one to start does
		snap := func() {
			sum := 0
			for _, a := range in.alerts {
				sum += a
			}
			in.closeSnaps = append(in.closeSnaps, [2]int{len(in.delivered), sum})
			in.bump(10+uint64(len(in.delivered))*32+uint64(sum)*1024, "")
		}
		mcrt.GoNamed("closer2", false, func() {
			dw.Close()
			snap()
			in.closeRet2 = true
		})
		dw.Close()
		snap()
		mcrt.Block("join2", nil, func() bool { return in.closeRet2 })
		in.closeRet = true
		in.bump(7, "")
	case "close2", "closerace":
		// Close is called again on a writer that is closed already (a deferred Close after an explicit one, a
		// shutdown path after the racing one): "Close returns in every schedule" is about every call
		in.closeRet = false
		dw.Close()
		if p.End == "close2" {
			dw.Close()
		}
		in.closeRet = true
		in.bump(9, "")
	case "fatal", "fatal2":
		// the Fatal path: the event is written through the diode, then the writer is closed, then os.Exit
		m := "{\"level\":\"fatal\"}\n"
		in.written = append(in.written, m)
		clock++
		in.callStep[m] = clock
		in.retStep[m] = clock
		logger.Fatal().Msg("")
		in.closeRet = true // not reached: Exit ends the execution
	}
}

func (in *inst) Digest() string {
	sum := 0
	for _, a := range in.alerts {
		sum += a
	}
	return fmt.Sprintf("deliv=%s alerts=%v done=%v close=%v", strings.ReplaceAll(strings.Join(in.delivered, ","), "\n", ""), in.alerts, in.prodDone, in.closeRet)
}

// ExtraKey: the harness monitors, as a rolling hash maintained by bump().
func (in *inst) ExtraKey() uint64 { return in.mon }

func (in *inst) bump(tag uint64, s string) {
	h := in.mon ^ (tag * 0x9e3779b97f4a7c15)
	for i := 0; i < len(s); i++ {
		h = (h ^ uint64(s[i])) * 1099511628211
	}
	h ^= h >> 29
	in.mon = h * 0xbf58476d1ce4e5b9
}

// producerOps reconstructs, per producer thread, the ring positions it claimed and whether each was published.
type claim struct {
	thread    int
	pos       uint64
	published bool
	msg       string
}

func (in *inst) claims(res *mcrt.Result) []claim {
	var out []claim
	// per thread: sequence of Add (claim), then optionally CAS(success/fail)
	open := map[int]int{} // thread -> index in out of its open claim
	nWrites := map[int]int{}
	for _, op := range res.Ops {
		switch op.Kind {
		case "atomic.AddUint64":
			out = append(out, claim{thread: op.Thread, pos: op.Val})
			open[op.Thread] = len(out) - 1
		case "atomic.CompareAndSwapPointer":
			if i, ok := open[op.Thread]; ok {
				if op.Val == 1 {
					out[i].published = true
					name := ""
					if op.Thread < len(res.Names) {
						name = res.Names[op.Thread]
					}
					var pi int
					if _, err := fmt.Sscanf(name, "prod%d", &pi); err == nil {
						out[i].msg = msgOf(pi, nWrites[op.Thread])
					} else {
						out[i].msg = "{\"level\":\"fatal\"}\n"
					}
					nWrites[op.Thread]++
				}
				delete(open, op.Thread)
			}
		}
	}
	return out
}

func (in *inst) Check(res *mcrt.Result) []explore.Violation {
	var vs []explore.Violation
	add := func(prop, sig, format string, a ...interface{}) {
		vs = append(vs, explore.Violation{Prop: prop, Sig: sig, Msg: fmt.Sprintf(format, a...)})
	}
	p := in.p
	for _, pn := range res.Panics {
		add("C10", "", "panic in a thread: %s", firstLine(pn))
	}
	collisions := 0
	for _, e := range res.Log {
		if e.Kind == "log" { // any line the ring logs is a collision report (the wording may change)
			collisions++
		}
	}
	sumAlerts := 0
	for _, a := range in.alerts {
		sumAlerts += a
	}
	writtenSet := map[string]bool{}
	for _, m := range in.written {
		writtenSet[m] = true
	}
	total := p.P * p.W
	if p.End == "fatal" || p.End == "fatal2" {
		total++
	}

	// ---- C10: integrity, no duplicates, one at a time, order, alert bound, non-blocking ----
	seen := map[string]int{}
	for _, d := range in.delivered {
		if !writtenSet[d] {
			add("C10", "", "delivered buffer %q is not the argument of any Write", d)
		}
		seen[d]++
		if seen[d] == 2 {
			add("C10", "", "message %q delivered twice", d)
		}
	}
	for _, m := range in.mutated {
		add("C10", "", "%s", m)
	}
	if in.overlap {
		add("C10", "", "wrapped writer entered while a previous delivery was still running")
	}
	// order: per producer program order and real-time order between Writes
	pos := map[string]int{}
	for i, d := range in.delivered {
		if _, dup := pos[d]; !dup {
			pos[d] = i
		}
	}
	for a, ia := range pos {
		for b, ib := range pos {
			if a == b {
				continue
			}
			// a's Write returned before b's Write was called => a must be delivered before b
			if in.retStep[a] != 0 && in.callStep[b] != 0 && in.retStep[a] < in.callStep[b] && ia > ib {
				add("C10", "", "reordered: Write(%q) returned before Write(%q) was called, but %q was delivered first", a, b, b)
			}
		}
	}
	claimed := len(in.written) + collisions
	if sumAlerts > claimed {
		add("C10", "", "alerter reported %d missed messages but only %d ring positions were claimed", sumAlerts, claimed)
	}
	// non-blocking: in every terminal state every producer has returned
	if !res.Capped && !res.Pruned {
		for pi, d := range in.prodDone {
			if !d {
				add("C10", "", "producer %d never returned from Write (terminal state: deadlock=%v quiescent=%v blockedOn=%v)", pi, res.Deadlock, res.Quiescent, res.BlockedOn)
			}
		}
	}
	if res.Capped {
		// legitimate executions of these scenarios take a few hundred steps: hitting the cap means a thread
		// spins (e.g. Set waiting for a slot to be consumed while the consumer is blocked) - producers must
		// return without waiting, and neither the consumer nor Close may loop forever
		spinner := "a consumer-side thread"
		prop := "C12"
		for pi, d := range in.prodDone {
			if !d {
				spinner = fmt.Sprintf("producer %d (its Write has not returned)", pi)
				prop = "C10"
			}
		}
		add(prop, "", "execution did not finish within the step limit (%d steps): %s spins", res.Steps, spinner)
		return vs
	}
	roomy := total <= p.N
	if roomy {
		if collisions > 0 {
			add("C10", "", "collision logged although only %d messages were written into a ring of %d", total, p.N)
		}
		if sumAlerts > 0 {
			add("C10", "", "alert %v although only %d messages were written into a ring of %d", in.alerts, total, p.N)
		}
	}

	// "while fewer messages than the ring size are outstanding none may be dropped": if at no point more
	// than N messages were written-but-not-yet-taken, the ring was never lapped
	neverFull := in.maxOut <= p.N && p.End != "fatal" && p.End != "fatal2"
	if neverFull && !roomy {
		if collisions > 0 || sumAlerts > 0 {
			add("C11", "", "at most %d messages were ever outstanding in a ring of %d, yet collisions=%d alerts=%v", in.maxOut, p.N, collisions, in.alerts)
		}
	}

	// ---- classification helpers (known findings) ----
	cl := in.claims(res)
	r := uint64(len(in.delivered) + sumAlerts) // == consumer read index
	holeAtR := false
	for _, c := range cl {
		if c.pos == r && !c.published {
			holeAtR = true
		}
	}
	delivSet := map[string]bool{}
	for _, d := range in.delivered {
		delivSet[d] = true
	}
	// the loss is explained by the hole when every undelivered published message sits at a position > r,
	// or at a position < r (then it was overwritten and is covered by an alert)
	explained := holeAtR
	behind := 0
	if holeAtR {
		for _, c := range cl {
			if !c.published || delivSet[c.msg] {
				continue
			}
			if c.pos > r {
				behind++
			} else if c.pos == r {
				explained = false
			}
		}
	}
	holeSig := ""
	if explained && behind > 0 {
		holeSig = "diode-hole-stall"
	}

	blockedRec := p.Rec == "block1" || p.Rec == "block2" || p.NilAlert // (without an alerter the reported counts are unknown: the accounting clauses are not applied)
	// ---- C11: after Close returned (or on the Fatal path at Exit) nothing is lost silently ----
	closed := in.closeRet || ((p.End == "fatal" || p.End == "fatal2") && res.Exited)
	if p.End == "fatal2" && res.Exited && len(in.deliveredB) != 1 {
		add("C11", "", "Fatal through MultiLevelWriter(diodeA, diodeB): the second diode delivered %d events before exit, want the fatal event (1)", len(in.deliveredB))
	}
	// Close racing with the Writes: the accounting clause does not apply, but conservation does - a message that
	// was published into a ring that never overflowed is delivered, or still sits in the ring; it cannot vanish
	if closed && !blockedRec && p.End == "closeearly" && in.maxOut <= p.N && collisions == 0 && in.remaining != nil {
		if rem := in.remaining(); rem >= 0 && len(in.delivered)+sumAlerts+rem < len(in.written) {
			add("C11", "", "a message vanished: written=%d delivered=%d alerts=%v still in the ring=%d (Close raced with the Writes; the ring of %d never overflowed)", len(in.written), len(in.delivered), in.alerts, rem, p.N)
		}
	}
	if closed && !blockedRec && p.End != "closeearly" && p.End != "closerace" { // (the accounting clause is about a Close called after the last Write returned)
		if len(in.delivered)+sumAlerts < len(in.written) {
			add("C11", holeSig, "lost silently: written=%d delivered=%d alerts=%v collisions=%d (read index %d, hole there=%v, %d published messages behind it)",
				len(in.written), len(in.delivered), in.alerts, collisions, r, holeAtR, behind)
		} else if collisions == 0 && len(in.delivered)+sumAlerts != len(in.written) {
			add("C11", "", "accounting: no collision but delivered(%d)+alerts(%v) != written(%d)", len(in.delivered), in.alerts, len(in.written))
		}
		if (roomy || neverFull) && len(in.delivered) != len(in.written) {
			add("C11", holeSig, "ring never full (%d messages, size %d) yet only %d delivered before Close returned", total, p.N, len(in.delivered))
		}
	}
	if p.End == "closepair" && !blockedRec {
		for i, sn := range in.closeSnaps {
			if sn[0]+sn[1] < len(in.written) {
				add("C11", "", "a Close call returned (%d of two overlapping ones to return) while written=%d delivered=%d reported=%d: the rest was still on its way", i+1, len(in.written), sn[0], sn[1])
				break
			}
		}
	}
	if (p.End == "fatal" || p.End == "fatal2") && !res.Exited && !res.Deadlock {
		add("C11", "", "Fatal path did not reach os.Exit")
	}

	// ---- C12: promptness and termination ----
	if !blockedRec {
		switch p.End {
		case "noclose":
			// terminal state without any Close: everything written must have been delivered or reported
			if len(in.delivered)+sumAlerts < len(in.written) {
				sig := holeSig
				if sig == "" && in.lostWakeup(res) {
					sig = "waiter-lost-wakeup"
				}
				add("C12", sig, "stuck: all Writes returned, no thread can run, but written=%d delivered=%d alerts=%v (consumer blocked on %v)",
					len(in.written), len(in.delivered), in.alerts, res.BlockedOn)
			}
		case "close", "fatal", "fatal2", "closeearly", "close2", "closerace", "closepair":
			if res.Deadlock || (!in.closeRet && !res.Exited) {
				add("C12", "", "Close did not return: deadlock=%v blocked=%v on %v", res.Deadlock, res.Blocked, res.BlockedOn)
			}
		}
	}
	return vs
}

// lostWakeup: the consumer is parked in Cond.Wait although a producer published (and broadcast) after the
// consumer's last look at the ring.
func (in *inst) lostWakeup(res *mcrt.Result) bool {
	for _, b := range res.BlockedOn {
		if b == "cond.parked" {
			return true
		}
	}
	return false
}

func firstLine(s string) string {
	if i := strings.IndexByte(s, '\n'); i >= 0 {
		return s[:i]
	}
	return s
}

func factory(name string) *explore.Scenario {
	p, ok := parseName(name)
	if !ok {
		return nil
	}
	return &explore.Scenario{
		Name:      name,
		RecordOps: true,
		New:       func() explore.Instance { return newInst(p) },
		Setup: func() {
			zerolog.SetGlobalLevel(zerolog.TraceLevel)
		},
	}
}

var _ = os.Exit

// ringRemaining counts the buckets still held by the diode's ring, reading the unexported fields
// Writer.d -> (*Waiter | *Poller).Diode -> *ManyToOne.buffer; -1 if that layout is not found (a refactoring
// of the internals then switches this oracle off instead of breaking the check).
func ringRemaining(dw *diode.Writer) (n int) {
	defer func() {
		if recover() != nil {
			n = -1
		}
	}()
	v := reflect.ValueOf(dw).Elem().FieldByName("d")
	if !v.IsValid() {
		return -1
	}
	v = reflect.NewAt(v.Type(), unsafe.Pointer(v.UnsafeAddr())).Elem() // readable copy of the unexported field
	v = v.Elem()                                                       // *Waiter / *Poller
	if v.Kind() == reflect.Ptr {
		v = v.Elem()
	}
	d := v.FieldByName("Diode")
	if !d.IsValid() {
		return -1
	}
	d = d.Elem() // *ManyToOne
	if d.Kind() == reflect.Ptr {
		d = d.Elem()
	}
	buf := d.FieldByName("buffer")
	if !buf.IsValid() || buf.Kind() != reflect.Slice {
		return -1
	}
	for i := 0; i < buf.Len(); i++ {
		e := buf.Index(i)
		p := *(*unsafe.Pointer)(unsafe.Pointer(e.UnsafeAddr()))
		if p != nil {
			n++
		}
	}
	return n
}
