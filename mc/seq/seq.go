// Package seq is the bookkeeping shared by the sequential (program / history / fault
// enumeration) checks: counting, distinct-outcome tracking, samples, violation
// reporting against KNOWN_FINDINGS.txt, evidence.
package seq

import (
	"encoding/gob"
	"fmt"
	"hash/fnv"
	"os"
	"os/exec"
	"path/filepath"
	"runtime"
	"runtime/debug"
	"sort"
	"strconv"
	"strings"
	"sync"
	"sync/atomic"
	"time"

	"verif/drv"
)

// Run accumulates what one check run covered.
type Run struct {
	Prop, Tier, Level string
	Rule              string
	Assumptions       []string
	Evals             int64
	Transitions       int64
	distinct          map[uint64]struct{}
	nontrivial        map[uint64]struct{}
	Samples           []interface{}
	MaxSamples        int
	Exhaustive        bool
	Caps              []string
	Extra             map[string]interface{}
	violations        int
	printed           map[string]bool
	knownSeen         map[string]int64
	known             []drv.Known
	t0                time.Time
	Deadline          time.Time
	counters          map[string]int64
	shardMode         bool
	shardViol         []shardViolation
	shardKeys         map[string]int
	// CurNote / CurBytes optionally describe the case about to run (read by the watchdog only)
	CurNote  string
	CurBytes []byte
}

// WatchTicks is the number of consecutive one-second ticks without any progress (no evaluation, no
// transition) after which the enumerating goroutine is taken to be stuck inside the code under test.
var WatchTicks = 240

// Watch starts a watchdog over the enumerating goroutine and returns the function that stops it. Ticks are
// counted, not wall-clock differences (a machine suspended for an hour adds one tick). When it fires, the
// case in progress did not terminate: that is reported as a violation, the remaining cases as unexplored,
// and the process ends the way it would have ended (shard dump or exit code).
func (r *Run) Watch() (stop func()) {
	done := make(chan struct{})
	ticks := WatchTicks
	if v, err := strconv.Atoi(os.Getenv("VERIF_WATCH_TICKS")); err == nil && v > 0 {
		ticks = v // self-test of the watchdog
	}
	go func() {
		last := atomic.LoadInt64(&r.Evals) + atomic.LoadInt64(&r.Transitions)
		idle := 0
		tk := time.NewTicker(time.Second) // one allocation up front: C07 counts allocations process-wide
		defer tk.Stop()
		for {
			select {
			case <-done:
				return
			case <-tk.C:
			}
			now := atomic.LoadInt64(&r.Evals) + atomic.LoadInt64(&r.Transitions)
			if now != last {
				last, idle = now, 0
				continue
			}
			idle++
			if idle < ticks {
				continue
			}
			desc := fmt.Sprintf("after %d completed evaluations", atomic.LoadInt64(&r.Evals))
			if r.CurNote != "" || r.CurBytes != nil {
				desc += fmt.Sprintf("; case in progress: %s %x", r.CurNote, r.CurBytes)
			}
			r.Violation("", "no-termination", fmt.Sprintf("the code under test did not return within %d one-second ticks on one case (%s); the cases after it were not explored", ticks, desc), map[string]interface{}{"note": r.CurNote, "bytes": fmt.Sprintf("%x", r.CurBytes), "stacks": allStacks()})
			r.Cap("a case did not terminate; remaining cases unexplored")
			if r.shardMode {
				r.FinishShard()
			}
			r.Exit()
		}
	}()
	return func() { close(done) }
}

func allStacks() string {
	buf := make([]byte, 1<<16)
	return string(buf[:runtime.Stack(buf, true)])
}

// New starts a run.
func New(prop, tier, level string) *Run {
	return &Run{Prop: prop, Tier: tier, Level: level, distinct: map[uint64]struct{}{}, nontrivial: map[uint64]struct{}{},
		MaxSamples: 8, Exhaustive: true, Extra: map[string]interface{}{}, printed: map[string]bool{}, knownSeen: map[string]int64{},
		known: drv.LoadKnown(), t0: time.Now(), counters: map[string]int64{}}
}

func Hash(ss ...string) uint64 {
	h := fnv.New64a()
	for _, s := range ss {
		h.Write([]byte(s))
		h.Write([]byte{0})
	}
	return h.Sum64()
}

// Eval counts one evaluated case whose observable outcome is `outcome`; nontrivial marks it by the check's rule.
func (r *Run) Eval(outcome string, nontrivial bool) {
	r.Evals++
	h := Hash(outcome)
	r.distinct[h] = struct{}{}
	if nontrivial {
		r.nontrivial[h] = struct{}{}
	}
}

// EvalHash is Eval with a precomputed hash.
func (r *Run) EvalHash(h uint64, nontrivial bool) {
	r.Evals++
	r.distinct[h] = struct{}{}
	if nontrivial {
		r.nontrivial[h] = struct{}{}
	}
}

// Count bumps a named counter reported in the evidence.
func (r *Run) Count(name string, n int64) { r.counters[name] += n }

// Sample records an example case.
func (r *Run) Sample(s interface{}) {
	if len(r.Samples) < r.MaxSamples {
		r.Samples = append(r.Samples, s)
	}
}

// Cap records that a cap was hit (the run is then not exhaustive).
func (r *Run) Cap(what string) {
	r.Exhaustive = false
	for _, c := range r.Caps {
		if c == what {
			return
		}
	}
	r.Caps = append(r.Caps, what)
}

// TimeUp reports whether the internal deadline passed (and records the cap).
func (r *Run) TimeUp() bool {
	if r.Deadline.IsZero() || time.Now().Before(r.Deadline) {
		return false
	}
	r.Cap("deadline")
	return true
}

// panicOrigin names the function that raised a recovered panic (first frame below panic() that is not
// part of the Go runtime) and says whether it belongs to the code under test.
func panicOrigin(stack string) (fn string, underTest bool) {
	repo := os.Getenv("VERIF_REPO")
	if repo == "" {
		repo = "/repo"
	}
	lines := strings.Split(stack, "\n")
	i := 0
	for ; i < len(lines); i++ {
		if strings.HasPrefix(lines[i], "panic(") {
			break
		}
	}
	for i++; i+1 < len(lines); i++ {
		l := lines[i]
		if l == "" || l[0] == '\t' || strings.HasPrefix(l, "runtime.") || strings.HasPrefix(l, "runtime/") || strings.HasPrefix(l, "panic(") {
			continue
		}
		// closures are inlined under their caller's name: the source file says where the code lives
		fn = l
		file := strings.TrimSpace(lines[i+1])
		underTest = strings.HasPrefix(file, repo+"/") || (strings.HasPrefix(fn, "github.com/rs/zerolog") && !strings.HasPrefix(fn, "github.com/rs/zerolog/mcrt"))
		break
	}
	return
}

// crashed handles a panic that escaped a case: raised by the code under test it is a violation (the
// remaining cases stay unexplored, recorded as a cap) and true is returned; raised by the harness itself
// the panic goes on (a crash of the check, exit 2).
func (r *Run) crashed(rec interface{}) {
	stack := string(debug.Stack())
	fn, under := panicOrigin(stack)
	if !under {
		panic(fmt.Sprintf("%v [harness panic, raised in %s]\n%s", rec, fn, stack))
	}
	r.Violation("", "escaped-panic/"+fn, fmt.Sprintf("a panic escaped from the code under test into the caller: %v (raised in %s); the cases after this one were not explored", rec, fn), map[string]interface{}{"panic": fmt.Sprint(rec), "stack": stack})
	r.Cap("a panic escaped from the code under test; remaining cases unexplored")
}

// CrashGuard is deferred by a check's main: see crashed. It ends the process.
func (r *Run) CrashGuard() {
	if rec := recover(); rec != nil {
		r.crashed(rec)
		if r.shardMode {
			r.FinishShard()
		}
		r.Exit()
	}
}

func (r *Run) guarded(f func()) {
	defer func() {
		if rec := recover(); rec != nil {
			r.crashed(rec)
		}
	}()
	f()
}

// Violation reports a failing case. sig is the known-finding signature the case matches ("" if none);
// key deduplicates reports; replay is written to a replay file.
func (r *Run) Violation(sig, key, msg string, replay interface{}) {
	if r.shardMode {
		if r.shardKeys == nil {
			r.shardKeys = map[string]int{}
		}
		r.shardKeys[sig+"|"+key]++
		if r.shardKeys[sig+"|"+key] <= 3 {
			r.shardViol = append(r.shardViol, shardViolation{sig, key, msg, fmt.Sprintf("%v", replay)})
		}
		return
	}
	if text, ok := drv.IsKnown(r.known, r.Prop, sig); ok {
		r.knownSeen[sig]++
		if !r.printed["k:"+sig] {
			r.printed["k:"+sig] = true
			fmt.Printf("KNOWN-FINDING: property=%s %s [sig=%s; e.g. %s]\n", r.Prop, text, sig, oneLine(msg))
		}
		return
	}
	if r.printed["v:"+key] {
		r.violations++
		return
	}
	r.printed["v:"+key] = true
	r.violations++
	if len(r.printed) > 40 {
		return
	}
	name := fmt.Sprintf("%x", Hash(key, msg)&0xffffffff)
	path := drv.WriteReplay(r.Prop, name, map[string]interface{}{"property": r.Prop, "sig": sig, "key": key, "message": msg, "case": replay})
	fmt.Printf("VIOLATION property=%s replay=%s\n  %s\n", r.Prop, path, msg)
}

func oneLine(s string) string {
	s = strings.ReplaceAll(s, "\n", " ")
	if len(s) > 300 {
		s = s[:300] + "..."
	}
	return s
}

// AddExternal counts violations that were already printed by another component (drv.Classify).
func (r *Run) AddExternal(n int) { r.violations += n }

// Violations so far (not counting known findings).
func (r *Run) Violations() int { return r.violations }

// Finish writes the evidence and returns the exit code.
func (r *Run) Finish() int {
	cov := map[string]interface{}{
		"evaluations":         r.Evals,
		"distinct_nontrivial": len(r.nontrivial),
		"distinct_outcomes":   len(r.distinct),
		"rule":                r.Rule,
		"samples":             r.Samples,
		"exhaustive":          r.Exhaustive,
	}
	if len(r.Caps) > 0 {
		cov["caps_hit"] = r.Caps
	}
	if r.Level == "model_checking" {
		cov["states"] = len(r.distinct)
		tr := r.Transitions
		if tr == 0 {
			tr = r.Evals
		}
		cov["transitions"] = tr
		cov["traces_validated_against_impl"] = r.Evals
	}
	if len(r.knownSeen) > 0 {
		cov["known_findings_seen"] = r.knownSeen
	}
	if len(r.counters) > 0 {
		ks := make([]string, 0, len(r.counters))
		for k := range r.counters {
			ks = append(ks, k)
		}
		sort.Strings(ks)
		m := map[string]int64{}
		for _, k := range ks {
			m[k] = r.counters[k]
		}
		cov["counters"] = m
	}
	for k, v := range r.Extra {
		cov[k] = v
	}
	if len(r.Samples) == 0 {
		cov["samples"] = []interface{}{"(none recorded)"}
	}
	ev := &drv.Evidence{PropertyID: r.Prop, Tier: r.Tier, Level: r.Level, Coverage: cov, Assumptions: r.Assumptions,
		WallS: time.Since(r.t0).Seconds(), Violations: r.violations}
	if os.Getenv("VERIF_ONLY_INDEX") != "" {
		// a replay of one case: report, but leave the evidence of the last full run alone
		fmt.Printf("%s replay: violations=%d\n", r.Prop, r.violations)
		if r.violations > 0 {
			return 1
		}
		return 0
	}
	if err := drv.WriteEvidence(ev); err != nil {
		fmt.Println("INFRA: cannot write evidence:", err)
		return 2
	}
	fmt.Printf("%s %s: evaluations=%d distinct=%d nontrivial=%d exhaustive=%v violations=%d known=%v wall=%.1fs\n",
		r.Prop, r.Tier, r.Evals, len(r.distinct), len(r.nontrivial), r.Exhaustive, r.violations, r.knownSeen, time.Since(r.t0).Seconds())
	if r.violations > 0 {
		return 1
	}
	if r.Evals == 0 {
		fmt.Println("INFRA: vacuous run (0 evaluations)")
		return 2
	}
	return 0
}

// Exit finishes and exits.
func (r *Run) Exit() { os.Exit(r.Finish()) }

// ---- sharding over worker processes ----

type shardViolation struct {
	Sig, Key, Msg string
	Replay        interface{}
}

type shardDump struct {
	Evals, Transitions int64
	Distinct           []uint64
	Nontrivial         []uint64
	Samples            []interface{}
	Caps               []string
	Counters           map[string]int64
	Violations         []shardViolation
	Extra              map[string]interface{}
}

// OnShardCrash, when set, is asked what to do when a worker process dies: it may report the death as a
// violation (under crashMu) and return true, in which case the run goes on without that shard's results.
var OnShardCrash func(r *Run, shard, n int, err error) bool

// CrashMu serialises OnShardCrash callbacks.
var CrashMu sync.Mutex

// Sharded runs body in n worker processes (re-executions of this binary with VERIF_SHARD=i/n), each
// handling the cases whose index is i mod n, merges what they covered into r and reports violations
// from the parent. In a worker process it runs body for that shard and never returns.
func Sharded(r *Run, n int, body func(r *Run, shard, nshards int)) {
	if spec := os.Getenv("VERIF_SHARD"); spec != "" {
		var i, nn int
		fmt.Sscanf(spec, "%d/%d", &i, &nn)
		r.shardMode = true
		stop := r.Watch()
		r.guarded(func() { body(r, i, nn) })
		stop()
		d := shardDump{Evals: r.Evals, Transitions: r.Transitions, Samples: r.Samples, Caps: r.Caps, Counters: r.counters, Violations: r.shardViol, Extra: r.Extra}
		for h := range r.distinct {
			d.Distinct = append(d.Distinct, h)
		}
		for h := range r.nontrivial {
			d.Nontrivial = append(d.Nontrivial, h)
		}
		f, err := os.Create(os.Getenv("VERIF_SHARD_OUT"))
		if err != nil {
			fmt.Fprintln(os.Stderr, "shard: ", err)
			os.Exit(2)
		}
		if err := gob.NewEncoder(f).Encode(&d); err != nil {
			fmt.Fprintln(os.Stderr, "shard: ", err)
			os.Exit(2)
		}
		f.Close()
		os.Exit(0)
	}
	if n <= 1 {
		stop := r.Watch()
		r.guarded(func() { body(r, 0, 1) })
		stop()
		return
	}
	tmp := filepath.Join(drv.VerifDir(), ".build", "tmp")
	os.MkdirAll(tmp, 0o755)
	type res struct {
		d       shardDump
		err     error
		crashed bool
	}
	results := make([]res, n)
	var wg sync.WaitGroup
	for i := 0; i < n; i++ {
		wg.Add(1)
		go func(i int) {
			defer wg.Done()
			out := filepath.Join(tmp, fmt.Sprintf("%s-%d-shard%d.gob", r.Prop, os.Getpid(), i))
			defer os.Remove(out)
			cmd := exec.Command(os.Args[0], os.Args[1:]...)
			cmd.Env = append(os.Environ(), fmt.Sprintf("VERIF_SHARD=%d/%d", i, n), "VERIF_SHARD_OUT="+out, "GOMAXPROCS=2")
			cmd.Stderr = os.Stderr
			cmd.Stdout = os.Stderr
			if err := cmd.Run(); err != nil {
				if OnShardCrash != nil && OnShardCrash(r, i, n, err) {
					results[i].crashed = true
					return
				}
				results[i].err = fmt.Errorf("shard %d: %v", i, err)
				return
			}
			f, err := os.Open(out)
			if err != nil {
				results[i].err = err
				return
			}
			defer f.Close()
			results[i].err = gob.NewDecoder(f).Decode(&results[i].d)
		}(i)
	}
	wg.Wait()
	for i := range results {
		if results[i].crashed {
			r.Cap(fmt.Sprintf("shard %d died (reported as a violation); its remaining cases were not explored", i))
			continue
		}
		if results[i].err != nil {
			fmt.Println("INFRA:", results[i].err)
			os.Exit(2)
		}
		d := &results[i].d
		r.Evals += d.Evals
		r.Transitions += d.Transitions
		for _, h := range d.Distinct {
			r.distinct[h] = struct{}{}
		}
		for _, h := range d.Nontrivial {
			r.nontrivial[h] = struct{}{}
		}
		for _, s := range d.Samples {
			if i < 4 || len(r.Samples) < r.MaxSamples {
				r.Sample(s)
			}
		}
		for _, c := range d.Caps {
			r.Cap(c)
		}
		for k, v := range d.Counters {
			r.counters[k] += v
		}
		for k, v := range d.Extra {
			r.Extra[k] = v
		}
	}
	// report violations in a deterministic order
	var all []shardViolation
	for i := range results {
		all = append(all, results[i].d.Violations...)
	}
	sort.SliceStable(all, func(a, b int) bool {
		if all[a].Key != all[b].Key {
			return all[a].Key < all[b].Key
		}
		return len(all[a].Msg) < len(all[b].Msg)
	})
	for _, v := range all {
		r.Violation(v.Sig, v.Key, v.Msg, v.Replay)
	}
}

// MergeChild runs another check binary (e.g. the same check built with a different build tag) as a
// single shard and merges what it covered and found into r.
func MergeChild(r *Run, bin string, args []string, extraEnv ...string) error {
	tmp := filepath.Join(drv.VerifDir(), ".build", "tmp")
	os.MkdirAll(tmp, 0o755)
	out := filepath.Join(tmp, fmt.Sprintf("%s-%d-child.gob", r.Prop, os.Getpid()))
	defer os.Remove(out)
	cmd := exec.Command(bin, args...)
	cmd.Env = append(append(os.Environ(), "VERIF_SHARD=0/1", "VERIF_SHARD_OUT="+out), extraEnv...)
	cmd.Stderr = os.Stderr
	cmd.Stdout = os.Stderr
	if err := cmd.Run(); err != nil {
		return fmt.Errorf("child %s: %v", bin, err)
	}
	f, err := os.Open(out)
	if err != nil {
		return err
	}
	defer f.Close()
	var d shardDump
	if err := gob.NewDecoder(f).Decode(&d); err != nil {
		return err
	}
	r.Evals += d.Evals
	r.Transitions += d.Transitions
	for _, h := range d.Distinct {
		r.distinct[h] = struct{}{}
	}
	for _, h := range d.Nontrivial {
		r.nontrivial[h] = struct{}{}
	}
	for _, s := range d.Samples {
		r.Sample(s)
	}
	for _, c := range d.Caps {
		r.Cap(c)
	}
	for k, v := range d.Counters {
		r.counters[k] += v
	}
	for k, v := range d.Extra {
		r.Extra[k] = v
	}
	for _, v := range d.Violations {
		r.Violation(v.Sig, v.Key, v.Msg, v.Replay)
	}
	return nil
}

// ShardMode reports whether this process is a shard/child (its Finish writes a dump, not evidence).
func ShardMode() bool { return os.Getenv("VERIF_SHARD") != "" }

// FinishShard writes the dump for a child process and exits.
func (r *Run) FinishShard() {
	r.shardMode = true
	d := shardDump{Evals: r.Evals, Transitions: r.Transitions, Samples: r.Samples, Caps: r.Caps, Counters: r.counters, Violations: r.shardViol, Extra: r.Extra}
	for h := range r.distinct {
		d.Distinct = append(d.Distinct, h)
	}
	for h := range r.nontrivial {
		d.Nontrivial = append(d.Nontrivial, h)
	}
	f, err := os.Create(os.Getenv("VERIF_SHARD_OUT"))
	if err != nil {
		fmt.Fprintln(os.Stderr, "shard: ", err)
		os.Exit(2)
	}
	if err := gob.NewEncoder(f).Encode(&d); err != nil {
		fmt.Fprintln(os.Stderr, "shard: ", err)
		os.Exit(2)
	}
	f.Close()
	os.Exit(0)
}

// SetShardMode makes Violation() collect instead of print (child processes).
func (r *Run) SetShardMode() { r.shardMode = true }

// MergeDump merges a shard dump file into r (mu serialises concurrent callers).
func MergeDump(r *Run, path string, mu *sync.Mutex) error {
	f, err := os.Open(path)
	if err != nil {
		return err
	}
	defer f.Close()
	var d shardDump
	if err := gob.NewDecoder(f).Decode(&d); err != nil {
		return err
	}
	mu.Lock()
	defer mu.Unlock()
	r.Evals += d.Evals
	r.Transitions += d.Transitions
	for _, h := range d.Distinct {
		r.distinct[h] = struct{}{}
	}
	for _, h := range d.Nontrivial {
		r.nontrivial[h] = struct{}{}
	}
	for _, s := range d.Samples {
		r.Sample(s)
	}
	for _, c := range d.Caps {
		r.Cap(c)
	}
	for k, v := range d.Counters {
		r.counters[k] += v
	}
	for k, v := range d.Extra {
		r.Extra[k] = v
	}
	for _, v := range d.Violations {
		r.Violation(v.Sig, v.Key, v.Msg, v.Replay)
	}
	return nil
}
