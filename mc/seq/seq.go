// Package seq is the bookkeeping shared by the sequential (program / history / fault
// enumeration) checks: counting, distinct-outcome tracking, samples, violation
// reporting against KNOWN_FINDINGS.txt, evidence.
package seq

import (
	"fmt"
	"hash/fnv"
	"os"
	"sort"
	"strings"
	"time"

	"verif/drv"
)

// Run accumulates what one check run covered.
type Run struct {
	Prop, Tier, Level string
	Rule              string
	Assumptions       []string
	Evals             int64
	Transitions       int64
	distinct          map[uint64]struct{}
	nontrivial        map[uint64]struct{}
	Samples           []interface{}
	MaxSamples        int
	Exhaustive        bool
	Caps              []string
	Extra             map[string]interface{}
	violations        int
	printed           map[string]bool
	knownSeen         map[string]int64
	known             []drv.Known
	t0                time.Time
	Deadline          time.Time
	counters          map[string]int64
}

// New starts a run.
func New(prop, tier, level string) *Run {
	return &Run{Prop: prop, Tier: tier, Level: level, distinct: map[uint64]struct{}{}, nontrivial: map[uint64]struct{}{},
		MaxSamples: 8, Exhaustive: true, Extra: map[string]interface{}{}, printed: map[string]bool{}, knownSeen: map[string]int64{},
		known: drv.LoadKnown(), t0: time.Now(), counters: map[string]int64{}}
}

func Hash(ss ...string) uint64 {
	h := fnv.New64a()
	for _, s := range ss {
		h.Write([]byte(s))
		h.Write([]byte{0})
	}
	return h.Sum64()
}

// Eval counts one evaluated case whose observable outcome is `outcome`; nontrivial marks it by the check's rule.
func (r *Run) Eval(outcome string, nontrivial bool) {
	r.Evals++
	h := Hash(outcome)
	r.distinct[h] = struct{}{}
	if nontrivial {
		r.nontrivial[h] = struct{}{}
	}
}

// EvalHash is Eval with a precomputed hash.
func (r *Run) EvalHash(h uint64, nontrivial bool) {
	r.Evals++
	r.distinct[h] = struct{}{}
	if nontrivial {
		r.nontrivial[h] = struct{}{}
	}
}

// Count bumps a named counter reported in the evidence.
func (r *Run) Count(name string, n int64) { r.counters[name] += n }

// Sample records an example case.
func (r *Run) Sample(s interface{}) {
	if len(r.Samples) < r.MaxSamples {
		r.Samples = append(r.Samples, s)
	}
}

// Cap records that a cap was hit (the run is then not exhaustive).
func (r *Run) Cap(what string) {
	r.Exhaustive = false
	for _, c := range r.Caps {
		if c == what {
			return
		}
	}
	r.Caps = append(r.Caps, what)
}

// TimeUp reports whether the internal deadline passed (and records the cap).
func (r *Run) TimeUp() bool {
	if r.Deadline.IsZero() || time.Now().Before(r.Deadline) {
		return false
	}
	r.Cap("deadline")
	return true
}

// Violation reports a failing case. sig is the known-finding signature the case matches ("" if none);
// key deduplicates reports; replay is written to a replay file.
func (r *Run) Violation(sig, key, msg string, replay interface{}) {
	if text, ok := drv.IsKnown(r.known, r.Prop, sig); ok {
		r.knownSeen[sig]++
		if !r.printed["k:"+sig] {
			r.printed["k:"+sig] = true
			fmt.Printf("KNOWN-FINDING: property=%s %s [sig=%s; e.g. %s]\n", r.Prop, text, sig, oneLine(msg))
		}
		return
	}
	if r.printed["v:"+key] {
		r.violations++
		return
	}
	r.printed["v:"+key] = true
	r.violations++
	if len(r.printed) > 40 {
		return
	}
	name := fmt.Sprintf("%x", Hash(key, msg)&0xffffffff)
	path := drv.WriteReplay(r.Prop, name, map[string]interface{}{"property": r.Prop, "sig": sig, "key": key, "message": msg, "case": replay})
	fmt.Printf("VIOLATION property=%s replay=%s\n  %s\n", r.Prop, path, msg)
}

func oneLine(s string) string {
	s = strings.ReplaceAll(s, "\n", " ")
	if len(s) > 300 {
		s = s[:300] + "..."
	}
	return s
}

// AddExternal counts violations that were already printed by another component (drv.Classify).
func (r *Run) AddExternal(n int) { r.violations += n }

// Violations so far (not counting known findings).
func (r *Run) Violations() int { return r.violations }

// Finish writes the evidence and returns the exit code.
func (r *Run) Finish() int {
	cov := map[string]interface{}{
		"evaluations":         r.Evals,
		"distinct_nontrivial": len(r.nontrivial),
		"distinct_outcomes":   len(r.distinct),
		"rule":                r.Rule,
		"samples":             r.Samples,
		"exhaustive":          r.Exhaustive,
	}
	if len(r.Caps) > 0 {
		cov["caps_hit"] = r.Caps
	}
	if r.Level == "model_checking" {
		cov["states"] = len(r.distinct)
		tr := r.Transitions
		if tr == 0 {
			tr = r.Evals
		}
		cov["transitions"] = tr
		cov["traces_validated_against_impl"] = r.Evals
	}
	if len(r.knownSeen) > 0 {
		cov["known_findings_seen"] = r.knownSeen
	}
	if len(r.counters) > 0 {
		ks := make([]string, 0, len(r.counters))
		for k := range r.counters {
			ks = append(ks, k)
		}
		sort.Strings(ks)
		m := map[string]int64{}
		for _, k := range ks {
			m[k] = r.counters[k]
		}
		cov["counters"] = m
	}
	for k, v := range r.Extra {
		cov[k] = v
	}
	if len(r.Samples) == 0 {
		cov["samples"] = []interface{}{"(none recorded)"}
	}
	ev := &drv.Evidence{PropertyID: r.Prop, Tier: r.Tier, Level: r.Level, Coverage: cov, Assumptions: r.Assumptions,
		WallS: time.Since(r.t0).Seconds(), Violations: r.violations}
	if err := drv.WriteEvidence(ev); err != nil {
		fmt.Println("INFRA: cannot write evidence:", err)
		return 2
	}
	fmt.Printf("%s %s: evaluations=%d distinct=%d nontrivial=%d exhaustive=%v violations=%d known=%v wall=%.1fs\n",
		r.Prop, r.Tier, r.Evals, len(r.distinct), len(r.nontrivial), r.Exhaustive, r.violations, r.knownSeen, time.Since(r.t0).Seconds())
	if r.violations > 0 {
		return 1
	}
	if r.Evals == 0 {
		fmt.Println("INFRA: vacuous run (0 evaluations)")
		return 2
	}
	return 0
}

// Exit finishes and exits.
func (r *Run) Exit() { os.Exit(r.Finish()) }
