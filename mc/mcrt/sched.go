// Package mcrt is the controlled-scheduler runtime that the verif overlay mounts
// as github.com/rs/zerolog/mcrt. Rewritten zerolog sources call into it instead
// of sync, sync/atomic, go statements, channel receives, time.Sleep and os.Exit.
//
// It is compiled at the language level of zerolog's go.mod (go 1.15): no
// generics, no "any".
//
// Execution model: every logical thread is a goroutine, exactly one of them
// runs at a time. Control changes hands only inside Sched.point, which every
// shimmed operation calls BEFORE performing the real operation. Outside an
// active exploration (S == nil) every shim is a pass-through.
package mcrt

import (
	"fmt"
	"runtime"
	"sync"
	"time"
	"unsafe"
)

// S is the scheduler of the execution in progress, nil when passive.
var S *Sched

// Thread is one logical thread of an execution.
type Thread struct {
	ID   int
	Name string
	wake chan struct{}
	// cond is the enabledness predicate of the operation the thread is
	// parked in front of; nil means enabled.
	cond func() bool
	// what the thread is parked in front of (diagnostics, state key)
	kind string
	loc  uintptr

	started  bool
	done     bool
	sleeping bool
	lib      bool   // started by a go statement of the code under test (not by the harness)
	pend     uint64 // hash of the operation the thread is parked before / has just passed (kind, nil-ness of its location)
	own      uint64 // progress-epoch increments made by this thread
	poller   bool   // has called Sleep at least once
	iterMark uint64 // steps made by OTHER threads when the current polling iteration began
	Daemon   bool   // a thread that is allowed to stay blocked at the end (consumer loops)
	nops     int
	obs      uint64 // rolling hash of the observation history (state key)
	// cond-var bookkeeping
	waitingOn *condState
	signaled  bool
	exited    chan struct{}
}

// PointRec records one scheduling decision where more than one thread was enabled.
type PointRec struct {
	Enabled    [8]int16 // thread ids in canonical order (running first if enabled, then ascending); first N valid
	N          int      // number of alternatives
	Chosen     int      // index into Enabled
	CurEnabled bool     // the running thread was among the enabled ones (switching away costs a preemption)
	Kind       string
	Step       int
	Choice     bool // a data choice (mcrt.Choose), not a thread choice
}

// Event is an entry of the execution's log (shim-level observations and harness notes).
type Event struct {
	Step   int
	Thread int
	Kind   string
	Arg    string
}

// Config configures one execution.
type Config struct {
	Prefix   []int // choices to replay; afterwards choice 0 everywhere
	MaxSteps int   // cap on executed steps (0 = 100000)
	// KeyHook, if non-nil, is called after every step with the current state key;
	// returning true stops the execution there (state already seen).
	KeyHook func(key uint64, cost int) bool
	// KeyWriterProgress makes an operation also observe how far the last writer of its location has run
	// (finer key; needed when the code under test may touch released objects with plain accesses).
	KeyWriterProgress bool
	// KeyNoCur leaves the identity of the running thread out of the state key (sound when no bound
	// on preemptions is in force: the running thread only matters for the cost of switching).
	KeyNoCur bool
	// ExtraKey lets the harness mix its monitors into the state key.
	ExtraKey func() uint64
	TraceOps bool // record every shim operation in the log (replay/diagnostics)
	// RecordOps records (thread, kind, observed value) of every shimmed operation in Result.Ops.
	RecordOps bool
}

// OpRec is one shimmed operation with what it observed.
type OpRec struct {
	Thread int
	Kind   string
	Val    uint64
	Write  bool
	Step   int
}

// Result is what one execution produced.
type Result struct {
	Points     []PointRec
	Choices    []int
	Log        []Event
	Steps      int
	Deadlock   bool  // no enabled thread, some non-daemon thread unfinished
	Quiescent  bool  // no enabled thread, only daemons/sleepers left
	Blocked    []int // ids of threads left blocked at the end
	BlockedOn  []string
	Exited     bool // mcrt.Exit was called
	ExitCode   int
	Capped     bool // MaxSteps hit
	Pruned     bool // KeyHook stopped it
	Divergence string
	Panics     []string
	Threads    int
	Names      []string
	Ops        []OpRec
}

// Sched is the scheduler of one execution.
type Sched struct {
	cfg      Config
	threads  []*Thread
	cur      *Thread
	pos      int
	res      *Result
	steps    int
	epoch    uint64 // progress epoch for sleepers
	finished chan struct{}
	ended    bool
	aborting bool
	mu       sync.Mutex // protects nothing under the cooperative discipline; used by abort
	locs     map[uintptr]*locState
	nextLoc  int
	pools    []func()
	execID   uint64
	cost     int // preemptions + deviations so far
	thrAcc   uint64
	locAcc   uint64
	enScratch []*Thread
}

type locState struct {
	name       uint64 // canonical name: hash(first toucher thread, its op index)
	lastWriter uint64 // hash(thread, op index) of the last write, 0 = initial
	lwThread   int    // thread of the last write (-1 = none)
}

var execCounter uint64

// ExecID identifies the current execution (pools use it to reset themselves).
func ExecID() uint64 {
	if S == nil {
		return 0
	}
	return S.execID
}

// Active reports whether a controlled execution is in progress and not being torn down.
func Active() bool { return S != nil && !S.aborting }

type abortSentinel struct{}
type exitSentinel struct{ code int }

// Run executes body as thread 0 under the scheduler and returns when the
// execution is over (all threads done, nothing enabled, exit, cap, or prune).
func Run(cfg Config, body func()) *Result {
	if S != nil {
		panic("mcrt: nested Run")
	}
	if cfg.MaxSteps == 0 {
		cfg.MaxSteps = 100000
	}
	execCounter++
	startWatchdog()
	s := &Sched{cfg: cfg, res: &Result{}, finished: make(chan struct{}), locs: make(map[uintptr]*locState, 32), execID: execCounter}
	s.res.Points = make([]PointRec, 0, 128)
	s.res.Choices = make([]int, 0, 128)
	if cfg.RecordOps {
		s.res.Ops = make([]OpRec, 0, 256)
	}
	s.enScratch = make([]*Thread, 0, 8)
	S = s
	t0 := s.newThread("main")
	s.cur = t0
	t0.started = true
	go s.threadMain(t0, body)
	t0.wake <- struct{}{}
	<-s.finished
	// tear down: abort every thread that is still parked, one at a time
	s.aborting = true
	for _, t := range s.threads {
		if !t.done {
			s.res.Blocked = append(s.res.Blocked, t.ID)
			s.res.BlockedOn = append(s.res.BlockedOn, t.kind)
		}
	}
	for i := 0; i < len(s.threads); i++ { // threads may not grow during abort, but be safe
		t := s.threads[i]
		if t.done {
			continue
		}
		s.cur = t
		t.wake <- struct{}{}
		<-t.exited
	}
	s.res.Steps = s.steps
	s.res.Threads = len(s.threads)
	for _, t := range s.threads {
		s.res.Names = append(s.res.Names, t.Name)
	}
	S = nil
	return s.res
}

func (s *Sched) newThread(name string) *Thread {
	t := &Thread{ID: len(s.threads), Name: name, wake: make(chan struct{}, 1), exited: make(chan struct{})}
	t.obs = uint64(t.ID)*0x9e3779b97f4a7c15 + 1
	t.iterMark = s.epoch
	s.threads = append(s.threads, t)
	s.thrAcc += t.comp()
	return t
}

func (s *Sched) threadMain(t *Thread, body func()) {
	defer close(t.exited)
	<-t.wake
	if s.aborting {
		t.done = true
		return
	}
	// a thread that starts running makes a step (its first segment may already change what a polling loop
	// would see, e.g. cancel a context, before it reaches its first scheduling point)
	s.epoch++
	t.own++
	defer func() {
		r := recover()
		if s.aborting {
			t.done = true
			return
		}
		if r != nil {
			switch v := r.(type) {
			case exitSentinel:
				_ = v
			default:
				buf := make([]byte, 4096)
				n := runtime.Stack(buf, false)
				s.res.Panics = append(s.res.Panics, fmt.Sprintf("thread %d (%s): %v\n%s", t.ID, t.Name, r, buf[:n]))
			}
		}
		s.thrAcc -= t.comp()
		t.done = true
		s.thrAcc += t.comp()
		t.kind = "done"
		if s.ended {
			return
		}
		if !t.poller {
			s.epoch++
		}
		s.schedule(t, true)
	}()
	body()
}

// CurThread returns the running thread (nil when passive).
func CurThread() *Thread {
	if S == nil {
		return nil
	}
	return S.cur
}

// end marks the execution as over and parks the calling thread until abort.
func (s *Sched) end(t *Thread) {
	if !s.ended {
		s.ended = true
		close(s.finished)
	}
	if t != nil && !t.done {
		<-t.wake
		// only abort wakes us now
		runtime.Goexit()
	}
}

func (t *Thread) isEnabled(s *Sched) bool {
	if t.done || !t.started {
		return false
	}
	if t.sleeping && s.epoch-t.own == t.iterMark {
		// a polling loop re-polls only if some other thread made a step since its
		// current iteration began (otherwise the poll would see what it saw before)
		return false
	}
	if t.cond != nil && !t.cond() {
		return false
	}
	return true
}

// schedule picks the next thread to run. cur is parked at a point (or done).
func (s *Sched) schedule(cur *Thread, exiting bool) {
	beat()
	if s.steps >= s.cfg.MaxSteps {
		s.res.Capped = true
		s.end(cur)
		return
	}
	en := s.enScratch[:0]
	curEnabled := !exiting && cur.isEnabled(s)
	if curEnabled {
		en = append(en, cur)
	}
	for _, t := range s.threads {
		if t != cur && t.isEnabled(s) {
			en = append(en, t)
		}
	}
	if len(en) == 0 {
		// terminal
		nonDaemon := false
		for _, t := range s.threads {
			if !t.done && !t.Daemon {
				nonDaemon = true
			}
		}
		if nonDaemon {
			s.res.Deadlock = true
		} else {
			allDone := true
			for _, t := range s.threads {
				if !t.done {
					allDone = false
				}
			}
			s.res.Quiescent = !allDone
		}
		s.end(cur)
		return
	}
	idx := 0
	if len(en) > 1 {
		if s.pos < len(s.cfg.Prefix) {
			idx = s.cfg.Prefix[s.pos]
			if idx < 0 || idx >= len(en) {
				s.res.Divergence = fmt.Sprintf("replay choice %d at point %d out of range (enabled=%d)", idx, s.pos, len(en))
				s.end(cur)
				return
			}
		}
		pr := PointRec{N: len(en), Chosen: idx, CurEnabled: curEnabled, Kind: cur.kind, Step: s.steps}
		if len(en) > len(pr.Enabled) {
			panic("mcrt: more than 8 enabled threads")
		}
		for i, t := range en {
			pr.Enabled[i] = int16(t.ID)
		}
		s.res.Points = append(s.res.Points, pr)
		s.res.Choices = append(s.res.Choices, idx)
		s.pos++
		if idx != 0 && curEnabled {
			s.cost++
		}
	}
	next := en[idx]
	s.enScratch = en[:0]
	s.steps++
	if next == cur {
		return
	}
	s.cur = next
	next.wake <- struct{}{}
	if exiting {
		return
	}
	<-cur.wake
	if s.aborting {
		runtime.Goexit()
	}
}

// point is the scheduling point executed before a shimmed operation.
func (s *Sched) point(kind string, loc uintptr, cond func() bool) {
	t := s.cur
	t.kind = kind
	t.loc = loc
	t.cond = cond
	pend := uint64(14695981039346656037)
	for i := 0; i < len(kind); i++ {
		pend = (pend ^ uint64(kind[i])) * 1099511628211
	}
	if loc == 0 {
		pend ^= 0x5bd1e995
	}
	if cond == nil {
		pend ^= 0x27d4eb2f
	}
	if t.nops != 0 || !t.lib {
		pend = 0 // (only the first segment of a thread started by the code under test: see comp)
	}
	if pend != t.pend {
		s.thrAcc -= t.comp()
		t.pend = pend
		s.thrAcc += t.comp()
	}
	s.schedule(t, false)
	t.cond = nil
	if t.sleeping {
		t.sleeping = false
		t.iterMark = s.epoch - t.own
	}
	t.nops++
	if !t.poller {
		s.epoch++
		t.own++
	}
	if s.cfg.KeyHook != nil {
		s.setObs(t, mix(t.obs, uint64(t.nops)))
	}
	if s.cfg.TraceOps {
		s.res.Log = append(s.res.Log, Event{Step: s.steps, Thread: t.ID, Kind: kind})
	}
}

// afterOp is called by shims after the real operation with the observation it
// made; it maintains the state key and gives the explorer a chance to prune.
func (s *Sched) afterOp(loc uintptr, write bool, extra uint64) {
	if s.cfg.KeyHook == nil {
		return
	}
	t := s.cur
	opid := mix(uint64(t.ID)+1, uint64(t.nops))
	s.thrAcc -= t.comp()
	var ls *locState
	if loc != 0 {
		ls = s.locs[loc]
		if ls == nil {
			ls = &locState{name: opid, lwThread: -1}
			s.locs[loc] = ls
			s.locAcc += mix(ls.name, ls.lastWriter)
		}
		t.obs = mix(mix(t.obs, ls.name), ls.lastWriter)
		if s.cfg.KeyWriterProgress && ls.lwThread >= 0 && ls.lwThread != t.ID {
			// Also observe how far the last writer has run since: plain (unsynchronised) accesses
			// that follow a release - use after Put/Unlock/publish - are invisible to the shims, so
			// two states that differ only in whether the releasing thread has already executed its
			// next segment must not be merged.
			t.obs = mix(t.obs, uint64(s.threads[ls.lwThread].nops)+0xabcdef)
		}
		if write {
			s.locAcc -= mix(ls.name, ls.lastWriter)
			ls.lastWriter = opid
			ls.lwThread = t.ID
			s.locAcc += mix(ls.name, ls.lastWriter)
		}
	}
	t.obs = mix(t.obs, extra)
	s.thrAcc += t.comp()
	if s.pos < len(s.cfg.Prefix) {
		return // still replaying
	}
	if s.cfg.KeyHook(s.stateKey(), s.cost) {
		s.res.Pruned = true
		s.end(t)
	}
}

// comp is the thread's contribution to the state key.
func (t *Thread) comp() uint64 {
	st := mix(uint64(t.ID)+0x7777, t.obs)
	if t.done {
		st = mix(st, 0xd09e)
	}
	// the first operation a new thread is parked before: in race-free code it follows from the spawn, but a
	// goroutine started before its creator finished initialising what it reads may already have run its first
	// segment and be parked before a different operation (or the same one on another object) than it would
	// be had it started later. Kept for the first segment only: later on the observation history says it.
	if t.pend != 0 {
		st = mix(st, t.pend)
	}
	return st
}

// setObs changes a thread's observation hash keeping the accumulator in step.
func (s *Sched) setObs(t *Thread, v uint64) {
	s.thrAcc -= t.comp()
	t.obs = v
	s.thrAcc += t.comp()
}

func mix(a, b uint64) uint64 {
	h := a ^ (b + 0x9e3779b97f4a7c15 + (a << 6) + (a >> 2))
	h ^= h >> 33
	h *= 0xff51afd7ed558ccd
	h ^= h >> 33
	return h
}

// stateKey: threads are deterministic, so a thread's local state is a function of its observation
// history (t.obs: for every operation the canonical name of the location and the identity of the
// write it observed, plus the result where that is not implied); shared memory is summarised by the
// last writer of every location. Equal keys => same thread-local states and same shared memory up to
// renaming => same futures. A too-fine key only costs time.
func (s *Sched) stateKey() uint64 {
	k := mix(s.thrAcc, s.locAcc)
	for _, t := range s.threads {
		if t.sleeping && !t.done && s.epoch-t.own == t.iterMark {
			k = mix(k, uint64(t.ID)+0x51ee9)
		}
	}
	if !s.cfg.KeyNoCur {
		k = mix(k, uint64(s.cur.ID))
	}
	if s.cfg.ExtraKey != nil {
		k = mix(k, s.cfg.ExtraKey())
	}
	return k
}

// ---- public API used by shims, rewritten code and harnesses ----

// Point is a plain scheduling point (harness callbacks use it to yield).
func Point(kind string) {
	s := S
	if s == nil || s.aborting {
		return
	}
	s.point(kind, 0, nil)
}

// PointLoc is a scheduling point that also counts as a write to a harness-level shared location
// (so the state key sees it).
func PointLoc(kind string, loc unsafe.Pointer, write bool) {
	s := S
	if s == nil || s.aborting {
		return
	}
	s.point(kind, uintptr(loc), nil)
	s.afterOp(uintptr(loc), write, 0)
}

// Op is used by the atomic shims: point before, then the caller performs the real op,
// then calls Done with what it observed.
func Op(kind string, loc unsafe.Pointer) bool {
	s := S
	if s == nil || s.aborting {
		return false
	}
	s.point(kind, uintptr(loc), nil)
	return true
}

// Done reports the observation of the operation started with Op.
func Done(loc unsafe.Pointer, write bool, extra uint64) {
	s := S
	if s == nil || s.aborting {
		return
	}
	if s.cfg.RecordOps {
		s.res.Ops = append(s.res.Ops, OpRec{Thread: s.cur.ID, Kind: s.cur.kind, Val: extra, Write: write, Step: s.steps})
	}
	s.afterOp(uintptr(loc), write, extra)
}

// Block parks the thread until cond() holds (evaluated by the scheduler).
func Block(kind string, loc unsafe.Pointer, cond func() bool) bool {
	s := S
	if s == nil || s.aborting {
		return false
	}
	s.point(kind, uintptr(loc), cond)
	return true
}

// Go starts fn as a new scheduler-owned thread.
func Go(fn func()) {
	if t := GoNamed("", DaemonNext, fn); t != nil && S != nil && !S.aborting {
		t.lib = true
		// a goroutine started by the code under test may run before its creator's next statement (a creator
		// that still initialises what the new goroutine reads): a scheduling point right after the spawn
		S.point("go.after", 0, nil)
	}
}

// GoNamed starts a named thread; daemon threads may remain blocked at the end
// of an execution without that being a deadlock.
func GoNamed(name string, daemon bool, fn func()) *Thread {
	s := S
	if s == nil {
		go fn()
		return nil
	}
	if s.aborting {
		// a goroutine started by a deferred call while its thread is being torn down must not run: it would
		// execute zerolog code outside any execution and collide with the next one
		return nil
	}
	t := s.newThread(name)
	t.Daemon = daemon
	t.started = true
	t.kind = "start"
	go s.threadMain(t, fn)
	if s.cfg.KeyHook != nil {
		s.setObs(s.cur, mix(s.cur.obs, uint64(t.ID)+77))
	}
	return t
}

// SetDaemon marks the calling thread as one that may stay blocked forever.
func SetDaemon(v bool) {
	if S != nil && S.cur != nil {
		S.cur.Daemon = v
	}
}

// DaemonNext makes threads subsequently spawned by zerolog code (via the go
// rewrite) daemons when v is true. Harnesses use it around NewWriter.
var DaemonNext bool

// Sleep models time.Sleep in a polling loop: the thread is parked until some
// other thread has executed a step.
func Sleep(d time.Duration) {
	s := S
	if s == nil {
		time.Sleep(d)
		return
	}
	if s.aborting {
		return
	}
	t := s.cur
	// A thread that polls is a poller from now on: its steps no longer count as progress for other polling
	// loops (two pollers would otherwise wake each other forever). Sleepers are woken by the steps of
	// ordinary threads (producers, closers) only.
	t.poller = true
	t.sleeping = true
	s.point("sleep", 0, nil)
}

// BlockForever parks the calling thread for the rest of the execution.
func BlockForever(kind string) {
	s := S
	if s == nil {
		select {}
	}
	if s.aborting {
		return
	}
	s.point(kind, 0, func() bool { return false })
}

// Exit models os.Exit: the whole execution stops here.
func Exit(code int) {
	s := S
	if s == nil {
		panic(fmt.Sprintf("mcrt.Exit(%d) outside an exploration", code))
	}
	if s.aborting {
		return
	}
	s.res.Exited = true
	s.res.ExitCode = code
	s.res.Log = append(s.res.Log, Event{Step: s.steps, Thread: s.cur.ID, Kind: "exit", Arg: fmt.Sprint(code)})
	s.end(s.cur)
}

// Logln replaces log.Println in instrumented files: the line becomes an event.
func Logln(args ...interface{}) {
	s := S
	if s == nil || s.aborting {
		return
	}
	s.res.Log = append(s.res.Log, Event{Step: s.steps, Thread: s.cur.ID, Kind: "log", Arg: fmt.Sprint(args...)})
}

// Note appends a harness-level event to the execution log.
func Note(kind, arg string) {
	s := S
	if s == nil || s.aborting {
		return
	}
	s.res.Log = append(s.res.Log, Event{Step: s.steps, Thread: s.cur.ID, Kind: kind, Arg: arg})
}

// ThreadID returns the id of the running thread, -1 when passive.
func ThreadID() int {
	s := S
	if s == nil || s.cur == nil {
		return -1
	}
	return s.cur.ID
}

// Choose is a data choice among n alternatives (default 0); a non-default
// choice is a deviation that the explorer charges against the bound.
func Choose(kind string, n int) int {
	s := S
	if s == nil || s.aborting || n <= 1 {
		return 0
	}
	idx := 0
	if s.pos < len(s.cfg.Prefix) {
		idx = s.cfg.Prefix[s.pos]
		if idx < 0 || idx >= n {
			s.res.Divergence = fmt.Sprintf("replay data choice %d at point %d out of range (n=%d)", idx, s.pos, n)
			s.end(s.cur)
			return 0
		}
	}
	pr := PointRec{N: n, Chosen: idx, CurEnabled: true, Kind: kind, Step: s.steps, Choice: true}
	for i := 0; i < n && i < len(pr.Enabled); i++ {
		pr.Enabled[i] = int16(i)
	}
	s.res.Points = append(s.res.Points, pr)
	s.res.Choices = append(s.res.Choices, idx)
	s.pos++
	if idx != 0 {
		s.cost++
	}
	if s.cfg.KeyHook != nil {
		s.setObs(s.cur, mix(s.cur.obs, uint64(idx)+1000))
	}
	return idx
}

// ---- channels (close-only chan struct{} signals) ----

func chanClosed(ch <-chan struct{}) bool {
	select {
	case <-ch:
		return true
	default:
		return false
	}
}

// RecvStruct replaces a blocking receive from a close-only signal channel.
func RecvStruct(ch <-chan struct{}) {
	s := S
	if s == nil {
		<-ch
		return
	}
	if s.aborting {
		return
	}
	s.point("chan.recv", 0, func() bool { return chanClosed(ch) })
	s.afterOp(0, false, 1)
}

// TryRecvStruct replaces `select { case <-ch: ...; default: ... }`.
func TryRecvStruct(ch <-chan struct{}) bool {
	s := S
	if s == nil || s.aborting {
		return chanClosed(ch)
	}
	s.point("chan.tryrecv", 0, nil)
	r := chanClosed(ch)
	var x uint64 = 2
	if r {
		x = 3
	}
	s.afterOp(0, false, x)
	return r
}

// Close replaces close(ch) on a signal channel.
func Close(ch chan struct{}) {
	s := S
	if s == nil || s.aborting {
		close(ch)
		return
	}
	s.point("chan.close", 0, nil)
	close(ch)
	s.afterOp(0, true, 4)
}

// CtxCancel wraps a context.CancelFunc call made by a harness thread so that it is a visible step.
func CtxCancel(cancel func()) {
	s := S
	if s == nil || s.aborting {
		cancel()
		return
	}
	s.point("ctx.cancel", 0, nil)
	cancel()
	s.afterOp(0, true, 5)
}

// ---- condition variables and mutexes live here so msync can stay thin ----

type condState struct {
	waiters []*Thread
}

// MutexState is the scheduler-side state of a shimmed mutex.
type MutexState struct {
	locked  bool
	readers int
}

// CondState is the scheduler-side state of a shimmed condition variable.
type CondState struct {
	c condState
}

// MutexLock blocks until the mutex is free, then takes it.
func MutexLock(m *MutexState) bool {
	s := S
	if s == nil || s.aborting {
		return false
	}
	loc := uintptr(unsafe.Pointer(m))
	s.point("mutex.lock", loc, func() bool { return !m.locked && m.readers == 0 })
	m.locked = true
	s.afterOp(loc, true, 6)
	return true
}

// MutexTryLock never blocks.
func MutexTryLock(m *MutexState) (handled, ok bool) {
	s := S
	if s == nil || s.aborting {
		return false, false
	}
	loc := uintptr(unsafe.Pointer(m))
	s.point("mutex.trylock", loc, nil)
	if m.locked || m.readers > 0 {
		s.afterOp(loc, false, 7)
		return true, false
	}
	m.locked = true
	s.afterOp(loc, true, 6)
	return true, true
}

// MutexUnlock releases the mutex. No scheduling point is needed before an
// unlock: it only enables other threads.
func MutexUnlock(m *MutexState) bool {
	s := S
	if s == nil {
		return false
	}
	if s.aborting {
		return true
	}
	if !m.locked {
		panic("mcrt: unlock of unlocked mutex")
	}
	m.locked = false
	if !s.cur.poller {
		s.epoch++
		s.cur.own++
	}
	s.cur.nops++
	s.afterOp(uintptr(unsafe.Pointer(m)), true, 8)
	if PointAfterUnlock {
		// a point right after the release (use-after-unlock windows)
		s.point("mutex.unlock.after", 0, nil)
	}
	return true
}

// PointAfterUnlock adds a scheduling point immediately after every Unlock.
var PointAfterUnlock = true

// MutexRLock / MutexRUnlock for RWMutex.
func MutexRLock(m *MutexState) bool {
	s := S
	if s == nil || s.aborting {
		return false
	}
	loc := uintptr(unsafe.Pointer(m))
	s.point("mutex.rlock", loc, func() bool { return !m.locked })
	m.readers++
	s.afterOp(loc, true, 9)
	return true
}

func MutexRUnlock(m *MutexState) bool {
	s := S
	if s == nil {
		return false
	}
	if s.aborting {
		return true
	}
	m.readers--
	if !s.cur.poller {
		s.epoch++
		s.cur.own++
	}
	s.cur.nops++
	s.afterOp(uintptr(unsafe.Pointer(m)), true, 10)
	return true
}

// CondWait implements sync.Cond.Wait for a cond whose locker is the shimmed mutex m:
// a scheduling point BEFORE the wait (the window in which a Broadcast is lost),
// then atomically {enqueue, unlock}, park until signalled, re-acquire.
func CondWait(c *CondState, unlock func(), lock func()) bool {
	s := S
	if s == nil || s.aborting {
		return false
	}
	t := s.cur
	loc := uintptr(unsafe.Pointer(c))
	s.point("cond.wait", loc, nil)
	// enqueue + unlock atomically (mirrors notifyListAdd before L.Unlock)
	c.c.waiters = append(c.c.waiters, t)
	t.signaled = false
	s.afterOp(loc, true, 11)
	unlock()
	s.point("cond.parked", loc, func() bool { return t.signaled })
	s.afterOp(loc, false, 12)
	lock()
	return true
}

// CondSignal wakes one (all=false, FIFO) or all waiters.
func CondSignal(c *CondState, all bool) bool {
	s := S
	if s == nil || s.aborting {
		return false
	}
	loc := uintptr(unsafe.Pointer(c))
	kind := "cond.signal"
	if all {
		kind = "cond.broadcast"
	}
	s.point(kind, loc, nil)
	if all {
		for _, w := range c.c.waiters {
			w.signaled = true
		}
		c.c.waiters = nil
	} else if len(c.c.waiters) > 0 {
		c.c.waiters[0].signaled = true
		c.c.waiters = c.c.waiters[1:]
	}
	s.afterOp(loc, true, 13)
	return true
}

// RegisterReset lets pools register a function that empties them at the start of the next execution.
// (Pools instead compare ExecID; kept for harness state.)
func (s *Sched) RegisterReset(f func()) { s.pools = append(s.pools, f) }
