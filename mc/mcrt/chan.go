package mcrt

import (
	"fmt"
	"os"
	"reflect"
	"runtime"
	"sync/atomic"
	"time"
	"unsafe"
)

// General channel support. The instrumenter has no type information, so the real channel operation
// stays in the rewritten source and is merely preceded by a blocking scheduling point that waits until
// it cannot block:
//
//	v := <-ch            ->  mcrt.ChanRecvWait(ch); v := <-ch
//	ch <- v              ->  mcrt.ChanSendWait(ch); ch <- v; mcrt.ChanSendDone(ch)
//	make(chan T)         ->  mcrt.ChanMake(make(chan T, 1)).(chan T)      (rendezvous modelled on a 1-slot buffer)
//	close(ch)            ->  mcrt.ChanClose(ch)
//	select {...}         ->  switch mcrt.ChanSelect("rsd", a, b) { case 0: <-a; ... }
//
// Under the cooperative discipline nothing else runs between the wait and the real operation.

type chanInfo struct {
	rendezvous bool
	closed     bool
	shadow     []uint64 // identities of the sends whose values are queued (state key)
}

var chans = map[uintptr]*chanInfo{}
var chansExec uint64

func chanOf(ch interface{}) (reflect.Value, uintptr, *chanInfo) {
	rv := reflect.ValueOf(ch)
	if rv.Kind() != reflect.Chan {
		panic(fmt.Sprintf("mcrt: channel operation on %T", ch))
	}
	p := rv.Pointer()
	if id := ExecID(); chansExec != id {
		chansExec = id
		chans = map[uintptr]*chanInfo{}
	}
	ci := chans[p]
	if ci == nil {
		ci = &chanInfo{}
		chans[p] = ci
	}
	return rv, p, ci
}

// ChanMake registers a channel that was unbuffered in the source (the instrumenter gave it one slot).
func ChanMake(ch interface{}) interface{} {
	_, _, ci := chanOf(ch)
	ci.rendezvous = true
	return ch
}

func recvReady(rv reflect.Value, ci *chanInfo) bool {
	if rv.IsNil() {
		return false
	}
	if rv.Len() > 0 || ci.closed {
		return true
	}
	if rv.Cap() == 0 && rv.Type().Elem().Size() == 0 && rv.Type().ChanDir()&reflect.RecvDir != 0 {
		// a close-only signal channel made by code that is not instrumented (context.Done()):
		// a non-blocking receive tells closed (valid zero value) from open (invalid)
		x, ok := rv.TryRecv()
		return !ok && x.IsValid()
	}
	return false
}

func sendReady(rv reflect.Value, ci *chanInfo) bool {
	if rv.IsNil() {
		return false
	}
	if ci.closed {
		return true // the real send will panic, as it should
	}
	if ci.rendezvous {
		return rv.Len() == 0
	}
	return rv.Len() < rv.Cap()
}

// ChanRecvWait parks the thread until a receive from ch cannot block.
func ChanRecvWait(ch interface{}) {
	s := S
	if s == nil {
		return
	}
	if s.aborting {
		// the thread is being torn down (possibly inside a deferred call run by Goexit): the real receive
		// that follows could block for real, so leave the frame here
		runtime.Goexit()
	}
	rv, p, ci := chanOf(ch)
	s.point("chan.recv", p, func() bool { return recvReady(rv, ci) })
	var obs uint64 = 21
	if len(ci.shadow) > 0 {
		obs = ci.shadow[0]
		ci.shadow = ci.shadow[1:]
	} else if ci.closed || rv.Len() == 0 {
		obs = 22
	}
	s.afterOp(p, true, obs)
}

// ChanSendWait parks the thread until a send on ch cannot block.
func ChanSendWait(ch interface{}) {
	s := S
	if s == nil {
		return
	}
	if s.aborting {
		runtime.Goexit()
	}
	rv, p, ci := chanOf(ch)
	s.point("chan.send", p, func() bool { return sendReady(rv, ci) })
	ci.shadow = append(ci.shadow, mix(uint64(s.cur.ID)+1, uint64(s.cur.nops)))
	s.afterOp(p, true, 23)
}

// ChanSendDone completes a send: on a rendezvous channel the sender proceeds only once the value was taken.
func ChanSendDone(ch interface{}) {
	s := S
	if s == nil || s.aborting {
		return
	}
	rv, p, ci := chanOf(ch)
	if !ci.rendezvous {
		return
	}
	s.point("chan.send.taken", p, func() bool { return rv.Len() == 0 || ci.closed })
	s.afterOp(p, false, 24)
}

// ChanClose replaces close(ch).
func ChanClose(ch interface{}) {
	s := S
	if s == nil || s.aborting {
		reflect.ValueOf(ch).Close()
		return
	}
	rv, p, ci := chanOf(ch)
	s.point("chan.close", p, nil)
	rv.Close()
	ci.closed = true
	s.afterOp(p, true, 25)
}

// ChanSelect replaces a select statement: dirs has one letter per case ('r' receive, 's' send) and a
// trailing 'd' if there is a default clause; it returns the index of a case that is ready (a data choice
// when several are), or -1 for the default clause. Without default it parks until some case is ready.
func ChanSelect(dirs string, chs ...interface{}) int {
	hasDefault := len(dirs) > 0 && dirs[len(dirs)-1] == 'd'
	n := len(chs)
	s := S
	if s != nil && s.aborting {
		if hasDefault {
			return -1
		}
		runtime.Goexit()
	}
	if s == nil {
		// passive: a real select through reflection
		cases := make([]reflect.SelectCase, 0, n+1)
		for i := 0; i < n; i++ {
			rv := reflect.ValueOf(chs[i])
			if dirs[i] == 'r' {
				cases = append(cases, reflect.SelectCase{Dir: reflect.SelectRecv, Chan: rv})
			} else {
				// cannot know the value to send: wait for room by polling
				cases = append(cases, reflect.SelectCase{Dir: reflect.SelectDefault})
			}
		}
		_ = cases
		for {
			for i := 0; i < n; i++ {
				rv := reflect.ValueOf(chs[i])
				if rv.IsNil() {
					continue
				}
				if dirs[i] == 'r' && (rv.Len() > 0 || passiveClosed(rv)) {
					return i
				}
				if dirs[i] == 's' && rv.Len() < rv.Cap() {
					return i
				}
			}
			if hasDefault {
				return -1
			}
			time.Sleep(50 * time.Microsecond)
		}
	}
	type c struct {
		rv reflect.Value
		p  uintptr
		ci *chanInfo
	}
	cs := make([]c, n)
	for i := 0; i < n; i++ {
		cs[i].rv, cs[i].p, cs[i].ci = chanOf(chs[i])
	}
	ready := func() []int {
		var out []int
		for i := 0; i < n; i++ {
			if dirs[i] == 'r' && recvReady(cs[i].rv, cs[i].ci) || dirs[i] == 's' && sendReady(cs[i].rv, cs[i].ci) {
				out = append(out, i)
			}
		}
		return out
	}
	var cond func() bool
	if !hasDefault {
		cond = func() bool { return len(ready()) > 0 }
	}
	s.point("chan.select", 0, cond)
	r := ready()
	if len(r) == 0 {
		s.afterOp(0, false, 26)
		return -1
	}
	pick := 0
	if len(r) > 1 {
		pick = Choose("select.pick", len(r))
	}
	i := r[pick]
	if dirs[i] == 'r' {
		var obs uint64 = 27
		if len(cs[i].ci.shadow) > 0 {
			obs = cs[i].ci.shadow[0]
			cs[i].ci.shadow = cs[i].ci.shadow[1:]
		}
		s.afterOp(cs[i].p, true, mix(obs, uint64(i)))
	} else {
		cs[i].ci.shadow = append(cs[i].ci.shadow, mix(uint64(s.cur.ID)+1, uint64(s.cur.nops)))
		s.afterOp(cs[i].p, true, mix(28, uint64(i)))
	}
	return i
}

func passiveClosed(rv reflect.Value) bool {
	if rv.Cap() == 0 && rv.Type().Elem().Size() == 0 {
		x, ok := rv.TryRecv()
		return !ok && x.IsValid()
	}
	return false
}

// ---- watchdog: a thread blocked in a REAL blocking operation freezes the cooperative scheduler ----

var heartbeat uint64
var watchdogOn int32

// Beat is called on every scheduling decision.
func beat() { atomic.AddUint64(&heartbeat, 1) }

func startWatchdog() {
	if !atomic.CompareAndSwapInt32(&watchdogOn, 0, 1) {
		return
	}
	go func() {
		last := atomic.LoadUint64(&heartbeat)
		idle := 0
		for {
			time.Sleep(2 * time.Second)
			now := atomic.LoadUint64(&heartbeat)
			if S != nil && now == last {
				idle++
				if idle >= 15 {
					if s := S; s != nil { // (racy read, diagnostics only: the schedule that led here)
						fmt.Fprintf(os.Stderr, "STALLED-EXECUTION: prefix=%v choices=%v steps=%d aborting=%v\n", s.cfg.Prefix, s.res.Choices, s.steps, s.aborting)
					}
					fmt.Fprintln(os.Stderr, "DIVERGENCE: no scheduling activity for 30 s inside an execution: a thread is blocked in an operation the instrumenter does not model (range over a channel? an unbuffered channel made with a computed size?)")
					fmt.Println("INFRA: execution blocked outside the controlled scheduler")
					os.Exit(2)
				}
			} else {
				idle = 0
			}
			last = now
		}
	}()
}

var _ = unsafe.Pointer(nil)
