// Package msync mirrors the parts of package sync that zerolog (or a realistic
// change to it) uses. Under an active exploration every operation is a
// scheduling point followed by the modelled operation; otherwise it is the
// real primitive.
package msync

import (
	"sync"
	"unsafe"

	"github.com/rs/zerolog/mcrt"
)

// Locker is sync.Locker.
type Locker interface {
	Lock()
	Unlock()
}

// Mutex shims sync.Mutex.
type Mutex struct {
	real sync.Mutex
	st   mcrt.MutexState
	mode int8 // 0 unused, 1 locked through real, 2 locked through model
}

func (m *Mutex) Lock() {
	if mcrt.MutexLock(&m.st) {
		return
	}
	if mcrt.S != nil { // aborting
		return
	}
	m.real.Lock()
}

func (m *Mutex) TryLock() bool {
	if h, ok := mcrt.MutexTryLock(&m.st); h {
		return ok
	}
	if mcrt.S != nil {
		return true
	}
	return m.real.TryLock()
}

func (m *Mutex) Unlock() {
	if mcrt.MutexUnlock(&m.st) {
		return
	}
	m.real.Unlock()
}

// RWMutex shims sync.RWMutex.
type RWMutex struct {
	real sync.RWMutex
	st   mcrt.MutexState
}

func (m *RWMutex) Lock() {
	if mcrt.MutexLock(&m.st) {
		return
	}
	if mcrt.S != nil {
		return
	}
	m.real.Lock()
}
func (m *RWMutex) Unlock() {
	if mcrt.MutexUnlock(&m.st) {
		return
	}
	m.real.Unlock()
}
func (m *RWMutex) RLock() {
	if mcrt.MutexRLock(&m.st) {
		return
	}
	if mcrt.S != nil {
		return
	}
	m.real.RLock()
}
func (m *RWMutex) RUnlock() {
	if mcrt.MutexRUnlock(&m.st) {
		return
	}
	m.real.RUnlock()
}
func (m *RWMutex) RLocker() Locker { return rlocker{m} }

type rlocker struct{ m *RWMutex }

func (r rlocker) Lock()   { r.m.RLock() }
func (r rlocker) Unlock() { r.m.RUnlock() }

// Cond shims sync.Cond.
type Cond struct {
	L    Locker
	real *sync.Cond
	st   mcrt.CondState
}

type lockerAdapter struct{ l Locker }

func (a lockerAdapter) Lock()   { a.l.Lock() }
func (a lockerAdapter) Unlock() { a.l.Unlock() }

func NewCond(l Locker) *Cond {
	c := &Cond{L: l}
	c.real = sync.NewCond(lockerAdapter{l})
	return c
}

func (c *Cond) Wait() {
	if mcrt.CondWait(&c.st, c.L.Unlock, c.L.Lock) {
		return
	}
	if mcrt.S != nil {
		return
	}
	c.real.Wait()
}

func (c *Cond) Signal() {
	if mcrt.CondSignal(&c.st, false) {
		return
	}
	if mcrt.S != nil {
		return
	}
	c.real.Signal()
}

func (c *Cond) Broadcast() {
	if mcrt.CondSignal(&c.st, true) {
		return
	}
	if mcrt.S != nil {
		return
	}
	c.real.Broadcast()
}

// Pool shims sync.Pool. Under exploration it is a LIFO list that is emptied at
// the start of every execution (so executions are independent); Get is a
// scheduling point and may, as a data choice, return a fresh object instead of
// the most recently pooled one (PoolChoice).
type Pool struct {
	New func() interface{}

	real  sync.Pool
	items []interface{}
	exec  uint64
}

// PoolChoice enables the "fresh object instead of pooled one" deviation.
var PoolChoice bool

func (p *Pool) sync() {
	if id := mcrt.ExecID(); p.exec != id {
		p.exec = id
		p.items = nil
	}
}

func (p *Pool) Get() interface{} {
	if !mcrt.Op("pool.get", unsafe.Pointer(p)) {
		if mcrt.S != nil { // aborting
			if p.New != nil {
				return p.New()
			}
			return nil
		}
		if x := p.real.Get(); x != nil {
			return x
		}
		if p.New != nil {
			return p.New()
		}
		return nil
	}
	p.sync()
	var x interface{}
	n := len(p.items)
	if n > 0 {
		pick := 0
		if PoolChoice {
			pick = mcrt.Choose("pool.pick", 2)
		}
		if pick == 0 {
			x = p.items[n-1]
			p.items = p.items[:n-1]
		}
	}
	var obs uint64 = 1
	if x == nil {
		obs = 2
		if p.New != nil {
			x = p.New()
		}
	}
	mcrt.Done(unsafe.Pointer(p), true, obs)
	return x
}

func (p *Pool) Put(x interface{}) {
	if x == nil {
		return
	}
	if !mcrt.Op("pool.put", unsafe.Pointer(p)) {
		if mcrt.S != nil {
			return
		}
		p.real.Put(x)
		return
	}
	p.sync()
	p.items = append(p.items, x)
	mcrt.Done(unsafe.Pointer(p), true, 3)
	// a point right after the release: lets another thread take the object before the releasing thread's
	// next plain access (use-after-Put windows contain no other synchronisation operation)
	mcrt.Point("pool.put.after")
}

// Once shims sync.Once.
type Once struct {
	m    Mutex
	done bool
}

func (o *Once) Do(f func()) {
	o.m.Lock()
	defer o.m.Unlock()
	if !o.done {
		defer func() { o.done = true }()
		f()
	}
}

// WaitGroup shims sync.WaitGroup.
type WaitGroup struct {
	real sync.WaitGroup
	n    int
}

func (w *WaitGroup) Add(d int) {
	if mcrt.Op("wg.add", unsafe.Pointer(w)) {
		w.n += d
		mcrt.Done(unsafe.Pointer(w), true, uint64(w.n))
		return
	}
	if mcrt.S != nil {
		return
	}
	w.real.Add(d)
}
func (w *WaitGroup) Done() { w.Add(-1) }
func (w *WaitGroup) Wait() {
	if mcrt.Block("wg.wait", unsafe.Pointer(w), func() bool { return w.n <= 0 }) {
		mcrt.Done(unsafe.Pointer(w), false, 1)
		return
	}
	if mcrt.S != nil {
		return
	}
	w.real.Wait()
}

// Map shims sync.Map: every operation is a scheduling point on the map as one location.
type Map struct {
	mu sync.Mutex
	m  map[interface{}]interface{}
}

func (m *Map) op(kind string, write bool, f func()) {
	a := mcrt.Op("syncmap."+kind, unsafe.Pointer(m))
	m.mu.Lock()
	if m.m == nil {
		m.m = map[interface{}]interface{}{}
	}
	f()
	m.mu.Unlock()
	if a {
		mcrt.Done(unsafe.Pointer(m), write, uint64(len(m.m)))
	}
}

func (m *Map) Load(key interface{}) (value interface{}, ok bool) {
	m.op("load", false, func() { value, ok = m.m[key] })
	return
}
func (m *Map) Store(key, value interface{}) { m.op("store", true, func() { m.m[key] = value }) }
func (m *Map) LoadOrStore(key, value interface{}) (actual interface{}, loaded bool) {
	m.op("loadorstore", true, func() {
		if v, ok := m.m[key]; ok {
			actual, loaded = v, true
			return
		}
		m.m[key] = value
		actual = value
	})
	return
}
func (m *Map) LoadAndDelete(key interface{}) (value interface{}, loaded bool) {
	m.op("loadanddelete", true, func() { value, loaded = m.m[key]; delete(m.m, key) })
	return
}
func (m *Map) Delete(key interface{}) { m.op("delete", true, func() { delete(m.m, key) }) }
func (m *Map) Range(f func(key, value interface{}) bool) {
	var ks, vs []interface{}
	m.op("range", false, func() {
		for k, v := range m.m {
			ks = append(ks, k)
			vs = append(vs, v)
		}
	})
	for i := range ks {
		if !f(ks[i], vs[i]) {
			return
		}
	}
}
