package seqx

import (
	"encoding/json"
	"errors"
	"fmt"
	"math"
	"net"
	"time"
)

// TextAlphabet: one representative of every escaping / UTF-8 class.
var TextAlphabet = []string{"a", `"`, `\`, "\n", "\t", "\b", "\f", "\r", "\x00", "\x1f", "\x7f", "<", "&", "é", " ", "😀", "\xff", "\xc0", "\xed\xa0\x80", "\xc3", "\x80", "\xf0\x9f\x98", "%", "\ufffd"} // (the last one: a WELL-FORMED replacement character in the input)

// Text classes used in windows.
var TextClasses = []string{"v", "", `a"b\c`, "\n\x00\x1f", "é😀 ", "\xff\xc3", "<&\x7f", EscapeLike, FormatLike}

// FormatLike is data that looks like fmt verbs: anything that passes data where a format string is expected mangles it.
const FormatLike = "100%d %s%% %!v(x) %"

// EscapeLike is data that LOOKS like JSON escapes (literal backslashes): anything that post-processes
// encoded text by search-and-replace instead of encoding properly corrupts it.
const EscapeLike = `\u003c\u003e\u0026 \n \" \\u2028 \ud800`

// KeyClasses used in windows.
var KeyClasses = []string{"k", "", `q"\`, "\xff\n", "level", "message"}

var (
	T0   = time.Time{}
	TEp  = time.Unix(0, 0).UTC()
	TFix = time.Date(2021, 3, 4, 5, 6, 7, 123456789, time.FixedZone("X", 3*3600+1800))
	TNeg = time.Unix(-1, -1).UTC()
	TNow = time.Date(2024, 2, 29, 23, 59, 59, 999999999, time.UTC)
	// a zone NAME that needs escaping (layouts that print MST carry it into the output)
	TZone  = time.Date(2021, 3, 4, 5, 6, 7, 0, time.FixedZone("q\"z\\\n", 3600))
	TZoneU = time.Date(2021, 3, 4, 5, 6, 7, 0, time.FixedZone("Z\xff\xc0é", -7200)) // a zone name that is not valid UTF-8
	IPv4   = net.IP{192, 168, 0, 1}
	IPv4m  = net.ParseIP("10.0.0.1") // 16-byte form
	IPv6   = net.ParseIP("2001:db8::1")
	Net4   = net.IPNet{IP: net.IP{10, 1, 0, 0}, Mask: net.CIDRMask(16, 32)}
	Net6   = net.IPNet{IP: net.ParseIP("2001:db8::"), Mask: net.CIDRMask(32, 128)}
	Mac6   = net.HardwareAddr{0, 0x14, 0x22, 1, 0x23, 0x45}
	Mac8   = net.HardwareAddr{1, 2, 3, 4, 5, 6, 7, 8}
)

type plainStruct struct {
	A int    `json:"a"`
	B string `json:"b"`
	C []int  `json:"c,omitempty"`
}

func ints(n int) []int {
	out := make([]int, n)
	for i := range out {
		out[i] = i - 3
	}
	return out
}

// ClassValues returns, for an Event method, one representative value of every class the encoders can
// distinguish (emptiness, nil-ness, escaping, sign, width boundary, format switch).
func ClassValues(m string) []interface{} {
	switch m {
	case "Str":
		var out []interface{}
		for _, s := range TextClasses {
			out = append(out, s)
		}
		return out
	case "Strs":
		return []interface{}{[]string(nil), []string{}, []string{"a"}, []string{`a"`, "", "\xff"}}
	case "Stringer":
		return []interface{}{nil, Str("s\n"), (*PStr)(nil), &PStr{"p"}, Str("\xff\"é\xc3")}
	case "Stringers":
		return []interface{}{[]fmt.Stringer(nil), []fmt.Stringer{}, []fmt.Stringer{Str("a"), nil, &PStr{`"`}}}
	case "Bytes":
		return []interface{}{[]byte(nil), []byte{}, []byte("v"), []byte("a\"\n\xff\x00é")}
	case "Hex":
		return []interface{}{[]byte(nil), []byte{}, []byte{0x00, 0xff, 0x7f}}
	case "RawJSON":
		return []interface{}{[]byte(`1`), []byte(`"s"`), []byte(`{"a":[1,{"b":null}]}`), []byte(`[]`), []byte(`null`), []byte(`{}`)}
	case "RawCBOR":
		return []interface{}{[]byte(nil), []byte{}, []byte{0x01}, []byte{0x83, 1, 2, 3}, []byte{0x18, 0xff}, []byte{0x82, 0x01, 0xf6}, []byte{0xfb, 0x3f, 0xf8, 0, 0, 0, 0, 0, 0}, []byte{0x3b, 0xff, 0xfe, 0xfb, 0xef, 0xbe, 0xff, 0xff, 0xfa}} // the last two: base64 text with "+" and "/"
	case "AnErr", "Err":
		return []interface{}{nil, errors.New("e"), errors.New("a\"\n\xff"), (*PErr)(nil), ErrObj{"m"}, &PErr{"p"}}
	case "Errs":
		return []interface{}{[]error(nil), []error{}, []error{errors.New("a")}, []error{errors.New("a"), errors.New("b")}, []error{nil, errors.New("x"), (*PErr)(nil), ErrObj{"o"}}}
	case "Bool":
		return []interface{}{true, false}
	case "Bools":
		return []interface{}{[]bool(nil), []bool{}, []bool{true}, []bool{true, false}}
	case "Int":
		return []interface{}{0, -1, math.MaxInt64, math.MinInt64}
	case "Int8":
		return []interface{}{int8(0), int8(-128), int8(127)}
	case "Int16":
		return []interface{}{int16(1), int16(-32768), int16(32767)}
	case "Int32":
		return []interface{}{int32(-1), int32(math.MinInt32), int32(math.MaxInt32)}
	case "Int64":
		return []interface{}{int64(0), int64(math.MinInt64), int64(math.MaxInt64)}
	case "Uint":
		return []interface{}{uint(0), uint(math.MaxUint64), uint(1) << 63}
	case "Uint8":
		return []interface{}{uint8(0), uint8(255), uint8(24)}
	case "Uint16":
		return []interface{}{uint16(256), uint16(65535)}
	case "Uint32":
		return []interface{}{uint32(65536), uint32(math.MaxUint32)}
	case "Uint64":
		return []interface{}{uint64(0), uint64(math.MaxUint64), uint64(1) << 63, uint64(1)<<63 - 1}
	case "Ints":
		return []interface{}{[]int(nil), []int{}, []int{-1}, []int{math.MinInt64, 0, math.MaxInt64}, ints(24)}
	case "Ints8":
		return []interface{}{[]int8(nil), []int8{}, []int8{-128, 127}}
	case "Ints16":
		return []interface{}{[]int16(nil), []int16{-32768, 32767}, []int16{300}}
	case "Ints32":
		return []interface{}{[]int32(nil), []int32{math.MinInt32, math.MaxInt32}}
	case "Ints64":
		return []interface{}{[]int64(nil), []int64{}, []int64{math.MinInt64, math.MaxInt64}}
	case "Uints":
		return []interface{}{[]uint(nil), []uint{0, math.MaxUint64}}
	case "Uints8":
		return []interface{}{[]uint8(nil), []uint8{}, []uint8{0, 255}}
	case "Uints16":
		return []interface{}{[]uint16(nil), []uint16{65535, 256}}
	case "Uints32":
		return []interface{}{[]uint32(nil), []uint32{math.MaxUint32}}
	case "Uints64":
		return []interface{}{[]uint64(nil), []uint64{}, []uint64{math.MaxUint64, 1 << 63}}
	case "Float32":
		return []interface{}{float32(0), float32(math.Copysign(0, -1)), float32(1.5), float32(math.NaN()), float32(math.Inf(1)), float32(math.Inf(-1)), float32(1e-7), float32(1e21), float32(math.MaxFloat32), float32(math.SmallestNonzeroFloat32), float32(0.1)}
	case "Float64":
		return []interface{}{0.0, math.Copysign(0, -1), 1.5, math.NaN(), math.Inf(1), math.Inf(-1), 1e-7, 1e21, 9.999999999999999e20, 1e-6, math.MaxFloat64, math.SmallestNonzeroFloat64, 0.1, float64(float32(0.1)), float64(math.MaxFloat32), 16777217.0}
	case "Floats32":
		return []interface{}{[]float32(nil), []float32{}, []float32{float32(math.NaN()), 1.5}, []float32{1e-7, 1e21}}
	case "Floats64":
		return []interface{}{[]float64(nil), []float64{}, []float64{math.NaN(), math.Inf(-1)}, []float64{1e-7, 1e21, 0.1, float64(float32(0.1))}}
	case "Time":
		return []interface{}{T0, TEp, TFix, TNeg, TZone, TZoneU}
	case "Times":
		return []interface{}{[]time.Time(nil), []time.Time{}, []time.Time{TFix}, []time.Time{TEp, TFix}, []time.Time{TZone, TZone}}
	case "Dur":
		return []interface{}{time.Duration(0), time.Millisecond + 1, -time.Second, time.Duration(math.MaxInt64), time.Duration(1500) * time.Microsecond}
	case "Durs":
		return []interface{}{[]time.Duration(nil), []time.Duration{}, []time.Duration{time.Millisecond + 1, -1}}
	case "Interface", "Any":
		var nilInt *int
		return []interface{}{nil, 1, "s\"\xff", 1.5, plainStruct{1, EscapeLike, nil}, map[string]interface{}{"z": 1, "a": []int{1}}, make(chan int), ObjV{Fields: []Field{{M: "Str", Key: "in", Val: "o"}}}, json.RawMessage(`{"r":1}`), []int{1, 2}, nilInt, (*ObjP)(nil), math.NaN(), []byte("b"), "<& ", IndentedJSON{}, BadJSON{"bad\x01\x7f\v\a\xff\"\\ <é\u2028"}}
	case "Type":
		// the type string of an anonymous struct carries its tags verbatim: quotes, backslashes, control bytes
		return []interface{}{nil, 1, "s", ObjV{}, (*PErr)(nil), struct {
			A int `json:"a"`
		}{1}, struct {
			B string "q\\r\n\x01é"
		}{"b"}, map[string][]*int(nil)}
	case "IPAddr":
		return []interface{}{net.IP(nil), IPv4, IPv4m, IPv6, net.IP{1, 2, 3}}
	case "IPPrefix":
		return []interface{}{Net4, Net6, net.IPNet{}, net.IPNet{IP: net.IP{10, 1, 2, 3}, Mask: net.IPMask{255, 0, 255, 0}}, net.IPNet{IP: net.ParseIP("::ffff:1.2.3.0"), Mask: net.CIDRMask(120, 128)}}
	case "MACAddr":
		return []interface{}{net.HardwareAddr(nil), Mac6, Mac8, net.HardwareAddr{0, 1, 2, 3, 4, 5, 6, 7, 8, 9, 10, 11, 12, 13, 14, 15, 16, 17, 18, 19}}
	}
	return nil
}

// StructuralValues is the reduced alphabet used as the middle symbol of length-3 windows: one ordinary
// value, plus the empty / nil classes of each container-ish type.
func StructuralValues(m string) []interface{} {
	all := ClassValues(m)
	switch m {
	case "Str":
		return []interface{}{"v", ""}
	case "AnErr", "Err":
		return []interface{}{nil, errors.New("e"), (*PErr)(nil), ErrObj{"m"}}
	case "Errs":
		return []interface{}{[]error{}, []error{errors.New("a"), errors.New("b")}}
	case "Interface", "Any":
		return []interface{}{nil, 1, ObjV{}}
	}
	if len(all) > 2 {
		return all[:2]
	}
	return all
}
