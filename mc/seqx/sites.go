package seqx

// Site places a chain of field operations somewhere in a program.
type Site struct {
	Name  string
	Build func(chain []Field) (steps []Step, fields []Field, ok bool)
}

func all(chain []Field, pred func(Field) bool) bool {
	for _, f := range chain {
		if !pred(f) {
			return false
		}
	}
	return true
}

var pre = Field{M: "Str", Key: "pre", Val: "v"}
var post = Field{M: "Int", Key: "post", Val: 1}

func wrapMid(f Field, mid bool) []Field {
	if mid {
		return []Field{pre, f, post}
	}
	return []Field{f}
}

// Sites enumerates every placement; mid=true surrounds the construct with other fields.
func Sites() []Site {
	var out []Site
	add := func(name string, b func(chain []Field) ([]Step, []Field, bool)) { out = append(out, Site{name, b}) }
	add("event", func(c []Field) ([]Step, []Field, bool) { return nil, c, true })
	add("context", func(c []Field) ([]Step, []Field, bool) {
		return []Step{{Op: "With", Fields: c}}, nil, all(c, HasContextForm)
	})
	add("context+event", func(c []Field) ([]Step, []Field, bool) {
		return []Step{{Op: "With", Fields: c}}, []Field{post}, all(c, HasContextForm)
	})
	add("ctx(pre)+event", func(c []Field) ([]Step, []Field, bool) {
		return []Step{{Op: "With", Fields: []Field{pre}}}, c, true
	})
	add("with.with", func(c []Field) ([]Step, []Field, bool) {
		if len(c) < 2 {
			return nil, nil, false
		}
		return []Step{{Op: "With", Fields: c[:1]}, {Op: "With", Fields: c[1:]}}, nil, all(c, HasContextForm)
	})
	add("updatecontext", func(c []Field) ([]Step, []Field, bool) {
		// only field-adding calls: what UpdateContext does with Timestamp()/Caller()/Stack()/Ctx() made inside
		// the callback (it keeps the context bytes only) is not covered by any statement
		fieldsOnly := func(f Field) bool {
			switch f.M {
			case "Timestamp", "Caller", "Stack", "Ctx":
				return false
			}
			return HasContextForm(f)
		}
		return []Step{{Op: "UpdateContext", Fields: c}}, []Field{post}, all(c, fieldsOnly)
	})
	add("hook", func(c []Field) ([]Step, []Field, bool) {
		return []Step{{Op: "HookChain", Fields: c}}, []Field{pre}, true
	})
	add("hook(bare)", func(c []Field) ([]Step, []Field, bool) {
		return []Step{{Op: "HookChain", Fields: c}}, nil, true
	})
	for _, mid := range []bool{false, true} {
		mid := mid
		sfx := ""
		if mid {
			sfx = "(mid)"
		}
		add("dict"+sfx, func(c []Field) ([]Step, []Field, bool) {
			return nil, wrapMid(Field{M: "Dict", Key: "d", Sub: c}, mid), true
		})
		add("object"+sfx, func(c []Field) ([]Step, []Field, bool) {
			return nil, wrapMid(Field{M: "Object", Key: "o", Sub: c, Form: "val"}, mid), true
		})
		add("objectptr"+sfx, func(c []Field) ([]Step, []Field, bool) {
			return nil, wrapMid(Field{M: "Object", Key: "o", Sub: c, Form: "ptr"}, mid), true
		})
		add("embed"+sfx, func(c []Field) ([]Step, []Field, bool) {
			return nil, wrapMid(Field{M: "EmbedObject", Sub: c, Form: "val"}, mid), true
		})
		add("func"+sfx, func(c []Field) ([]Step, []Field, bool) {
			return nil, wrapMid(Field{M: "Func", Sub: c, Form: "f"}, mid), true
		})
		add("array"+sfx, func(c []Field) ([]Step, []Field, bool) {
			return nil, wrapMid(Field{M: "Array", Key: "a", Sub: c, Form: "arr"}, mid), all(c, HasArrayForm)
		})
		add("arraymarsh"+sfx, func(c []Field) ([]Step, []Field, bool) {
			return nil, wrapMid(Field{M: "Array", Key: "a", Sub: c, Form: "marsh"}, mid), all(c, HasArrayForm)
		})
		add("fieldsmap"+sfx, func(c []Field) ([]Step, []Field, bool) {
			return nil, wrapMid(Field{M: "Fields", Sub: c, Form: "map"}, mid), all(c, HasFieldsForm)
		})
		add("fieldsslice"+sfx, func(c []Field) ([]Step, []Field, bool) {
			return nil, wrapMid(Field{M: "Fields", Sub: c, Form: "slice"}, mid), all(c, HasFieldsForm)
		})
		add("ctx.dict"+sfx, func(c []Field) ([]Step, []Field, bool) {
			return []Step{{Op: "With", Fields: wrapMid(Field{M: "Dict", Key: "d", Sub: c}, mid)}}, []Field{post}, true
		})
		add("ctx.object"+sfx, func(c []Field) ([]Step, []Field, bool) {
			return []Step{{Op: "With", Fields: wrapMid(Field{M: "Object", Key: "o", Sub: c, Form: "val"}, mid)}}, []Field{post}, true
		})
		add("ctx.embed"+sfx, func(c []Field) ([]Step, []Field, bool) {
			return []Step{{Op: "With", Fields: wrapMid(Field{M: "EmbedObject", Sub: c, Form: "val"}, mid)}}, []Field{post}, true
		})
		add("ctx.array"+sfx, func(c []Field) ([]Step, []Field, bool) {
			return []Step{{Op: "With", Fields: wrapMid(Field{M: "Array", Key: "a", Sub: c, Form: "arr"}, mid)}}, nil, all(c, HasArrayForm)
		})
		add("ctx.fieldsmap"+sfx, func(c []Field) ([]Step, []Field, bool) {
			return []Step{{Op: "With", Fields: wrapMid(Field{M: "Fields", Sub: c, Form: "map"}, mid)}}, nil, all(c, HasFieldsForm)
		})
		add("ctx.fieldsslice"+sfx, func(c []Field) ([]Step, []Field, bool) {
			return []Step{{Op: "With", Fields: wrapMid(Field{M: "Fields", Sub: c, Form: "slice"}, mid)}}, []Field{post}, all(c, HasFieldsForm)
		})
	}
	// nesting depth 2
	add("array[object]", func(c []Field) ([]Step, []Field, bool) {
		return nil, []Field{pre, {M: "Array", Key: "a", Form: "arr", Sub: []Field{{M: "Int", Val: 1}, {M: "Object", Sub: c, Form: "val"}, {M: "Dict", Sub: c}}}, post}, true
	})
	add("dict[dict]", func(c []Field) ([]Step, []Field, bool) {
		return nil, []Field{{M: "Dict", Key: "d", Sub: []Field{{M: "Dict", Key: "e", Sub: c}, post}}}, true
	})
	add("object[array]", func(c []Field) ([]Step, []Field, bool) {
		return nil, []Field{{M: "Object", Key: "o", Form: "ptr", Sub: []Field{pre, {M: "Array", Key: "a", Form: "arr", Sub: c}}}}, all(c, HasArrayForm)
	})
	add("fields[object]", func(c []Field) ([]Step, []Field, bool) {
		return nil, []Field{pre, {M: "Fields", Form: "slice", Sub: []Field{{M: "Object", Key: "o", Sub: c, Form: "val"}, {M: "Str", Key: "s", Val: "v"}}}}, true
	})
	add("embed[embed]", func(c []Field) ([]Step, []Field, bool) {
		return nil, []Field{{M: "EmbedObject", Form: "val", Sub: []Field{{M: "EmbedObject", Form: "ptr", Sub: c}}}, post}, true
	})
	add("ctx.embed[dict]", func(c []Field) ([]Step, []Field, bool) {
		return []Step{{Op: "With", Fields: []Field{pre, {M: "EmbedObject", Form: "val", Sub: []Field{{M: "Dict", Key: "d", Sub: c}}}}}}, []Field{post}, true
	})
	return out
}
