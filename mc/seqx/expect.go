package seqx

import (
	"bytes"
	"encoding/base64"
	"encoding/hex"
	"encoding/json"
	"fmt"
	"math"
	"net"
	"reflect"
	"sort"
	"strconv"
	"strings"
	"time"
	"unicode/utf8"

	"github.com/rs/zerolog"

	"verif/oracle/jsonstrict"
)

// Exp is the expected decoded form of a JSON value (refenc), written from the
// property statements, not from zerolog's encoders.
type Exp struct {
	Kind  byte // 's' string (decoded text Str), 'n' number with exact text Str, 't','f','z' (null), 'a' array, 'o' object, 'r' verbatim raw JSON text Str, '?' any valid value
	Str   string
	Items []Exp
	KVs   []KV
	FBits int // for values logged through a float method: the width logged (32 / 64); 0 otherwise
}

// KV is an expected field. Opt: the field may be absent (behaviour the statements leave open).
type KV struct {
	Key string
	Exp Exp
	Opt bool
}

func S(s string) Exp { return Exp{Kind: 's', Str: Sanitize(s)} }
func N(s string) Exp { return Exp{Kind: 'n', Str: s} }
func B(b bool) Exp {
	if b {
		return Exp{Kind: 't'}
	}
	return Exp{Kind: 'f'}
}

// Null is the expectation for a nil value. Several nil positions (nil error elements, nil Stringer, nil
// error in an array) are written through AppendInterface(nil): with a deviating InterfaceMarshalFunc
// installed they carry whatever that function returns, which the statements leave open.
func Null() Exp {
	if !InterfaceMarshalDefault {
		return Any()
	}
	return Exp{Kind: 'z'}
}
func Any() Exp             { return Exp{Kind: '?'} }
func Raw(s string) Exp     { return Exp{Kind: 'r', Str: s} }
func Arr(items ...Exp) Exp { return Exp{Kind: 'a', Items: items} }
func Obj(kvs ...KV) Exp    { return Exp{Kind: 'o', KVs: kvs} }

func (e Exp) String() string {
	switch e.Kind {
	case 's':
		return fmt.Sprintf("%q", e.Str)
	case 'n', 'r':
		return e.Str
	case 't':
		return "true"
	case 'f':
		return "false"
	case 'z':
		return "null"
	case '?':
		return "<any>"
	case 'a':
		var p []string
		for _, i := range e.Items {
			p = append(p, i.String())
		}
		return "[" + strings.Join(p, ",") + "]"
	case 'o':
		var p []string
		for _, kv := range e.KVs {
			o := ""
			if kv.Opt {
				o = "?"
			}
			p = append(p, fmt.Sprintf("%q%s:%s", kv.Key, o, kv.Exp))
		}
		return "{" + strings.Join(p, ",") + "}"
	}
	return "<bad>"
}

// Sanitize replaces every invalid UTF-8 byte with U+FFFD, as encoding/json does.
func Sanitize(s string) string {
	if utf8.ValidString(s) {
		return s
	}
	var sb strings.Builder
	for i := 0; i < len(s); {
		r, size := utf8.DecodeRuneInString(s[i:])
		if r == utf8.RuneError && size == 1 {
			sb.WriteRune(utf8.RuneError)
			i++
			continue
		}
		sb.WriteString(s[i : i+size])
		i += size
	}
	return sb.String()
}

// Match compares a parsed value with an expectation.
func Match(n *jsonstrict.Node, e Exp) error {
	switch e.Kind {
	case '?':
		return nil
	case 's':
		if n.Kind != 's' {
			return fmt.Errorf("got %s, want string %q", n.Raw, e.Str)
		}
		if n.Str != e.Str {
			return fmt.Errorf("got string %q, want %q", n.Str, e.Str)
		}
	case 'n':
		if n.Kind != 'n' {
			return fmt.Errorf("got %s, want number %s", n.Raw, e.Str)
		}
		if n.Str != e.Str {
			return fmt.Errorf("got number %s, want %s", n.Str, e.Str)
		}
	case 't', 'f', 'z':
		if n.Kind != e.Kind {
			return fmt.Errorf("got %s, want %s", n.Raw, e)
		}
	case 'r':
		if n.Raw != e.Str {
			return fmt.Errorf("got %s, want verbatim %s", n.Raw, e.Str)
		}
	case 'a':
		if n.Kind != 'a' {
			return fmt.Errorf("got %s, want array %s", n.Raw, e)
		}
		if len(n.Items) != len(e.Items) {
			return fmt.Errorf("got array of %d (%s), want %d (%s)", len(n.Items), n.Raw, len(e.Items), e)
		}
		for i := range e.Items {
			if err := Match(n.Items[i], e.Items[i]); err != nil {
				return fmt.Errorf("[%d]: %v", i, err)
			}
		}
	case 'o':
		if n.Kind != 'o' {
			return fmt.Errorf("got %s, want object %s", n.Raw, e)
		}
		return MatchFields(n, e.KVs)
	}
	return nil
}

// MatchFields compares an object's ordered members with the expected ordered fields.
func MatchFields(n *jsonstrict.Node, kvs []KV) error {
	i := 0
	for _, kv := range kvs {
		if i < len(n.Keys) && n.Keys[i] == Sanitize(kv.Key) {
			if err := Match(n.Vals[i], kv.Exp); err != nil {
				if kv.Opt {
					continue
				}
				return fmt.Errorf("field %q: %v", kv.Key, err)
			}
			i++
			continue
		}
		if kv.Opt {
			continue
		}
		got := "<end of object>"
		if i < len(n.Keys) {
			got = fmt.Sprintf("%q", n.Keys[i])
		}
		return fmt.Errorf("member %d: got key %s, want %q (object %s, expected %s)", i, got, kv.Key, n.Raw, Obj(kvs...))
	}
	if i != len(n.Keys) {
		return fmt.Errorf("unexpected extra member %q (object %s, expected %s)", n.Keys[i], n.Raw, Obj(kvs...))
	}
	return nil
}

// ---- refenc: expected value of one field ----

func intText(v interface{}) (string, bool) {
	rv := reflect.ValueOf(v)
	switch rv.Kind() {
	case reflect.Int, reflect.Int8, reflect.Int16, reflect.Int32, reflect.Int64:
		return strconv.FormatInt(rv.Int(), 10), true
	case reflect.Uint, reflect.Uint8, reflect.Uint16, reflect.Uint32, reflect.Uint64:
		return strconv.FormatUint(rv.Uint(), 10), true
	}
	return "", false
}

// FloatExp renders a float the way encoding/json does (precision -1) or with a fixed precision.
func FloatExp(v float64, bits int) Exp {
	e := floatExp(v, bits)
	e.FBits = bits
	return e
}

func floatExp(v float64, bits int) Exp {
	switch {
	case math.IsNaN(v):
		return S("NaN")
	case math.IsInf(v, 1):
		return S("+Inf")
	case math.IsInf(v, -1):
		return S("-Inf")
	}
	if p := zerolog.FloatingPointPrecision; p != -1 {
		return N(strconv.FormatFloat(v, 'f', p, bits))
	}
	var b []byte
	if bits == 32 {
		b, _ = json.Marshal(float32(v))
	} else {
		b, _ = json.Marshal(v)
	}
	return N(string(b))
}

func timeExp(t time.Time) Exp {
	switch zerolog.TimeFieldFormat {
	case zerolog.TimeFormatUnix:
		return N(strconv.FormatInt(t.Unix(), 10))
	case zerolog.TimeFormatUnixMs:
		return N(strconv.FormatInt(t.UnixNano()/1000000, 10))
	case zerolog.TimeFormatUnixMicro:
		return N(strconv.FormatInt(t.UnixNano()/1000, 10))
	case zerolog.TimeFormatUnixNano:
		return N(strconv.FormatInt(t.UnixNano(), 10))
	}
	return S(t.Format(zerolog.TimeFieldFormat)) // (S: invalid UTF-8 - from a zone name or the layout - reads back as U+FFFD)
}

func durExp(d time.Duration) Exp {
	if zerolog.DurationFieldInteger {
		return N(strconv.FormatInt(int64(d/zerolog.DurationFieldUnit), 10))
	}
	return FloatExp(float64(d)/float64(zerolog.DurationFieldUnit), 64)
}

// DefaultErrMarshal reports whether ErrorMarshalFunc / ErrorStackMarshaler are at their defaults
// (the statements define error rendering only for those).
var ErrMarshalDefault = true

func errExp(err error) (Exp, bool) { // ok=false: no field
	if err == nil || isNilPtr(err) {
		return Exp{}, false
	}
	if m, ok := err.(zerolog.LogObjectMarshaler); ok {
		if eo, ok := m.(ErrObj); ok {
			return Obj(KV{Key: "msg", Exp: S(eo.Msg)}), true
		}
		return Any(), true
	}
	return S(err.Error()), true
}

func errElemExp(err error) Exp {
	e, ok := errExp(err)
	if !ok {
		return Null()
	}
	return e
}

// sliceExp maps a typed slice to an array expectation.
func sliceExp(v interface{}, elem func(reflect.Value) Exp) Exp {
	rv := reflect.ValueOf(v)
	out := Exp{Kind: 'a'}
	if v == nil {
		return out
	}
	for i := 0; i < rv.Len(); i++ {
		out.Items = append(out.Items, elem(rv.Index(i)))
	}
	return out
}

// ifaceExp is the expectation for Interface()/Any()/unknown Fields values: what
// encoding/json (HTML escaping off) produces, verbatim.
func ifaceExp(v interface{}) Exp {
	if !InterfaceMarshalDefault {
		return Any()
	}
	// the documented default, written out here so that the reference does not lean on the code under test:
	// encoding/json with HTML escaping off (compact, validated), without the trailing newline
	var buf bytes.Buffer
	enc := json.NewEncoder(&buf)
	enc.SetEscapeHTML(false)
	if err := enc.Encode(v); err != nil {
		return S(fmt.Sprintf("marshaling error: %v", err))
	}
	return Raw(strings.TrimSuffix(buf.String(), "\n"))
}

// InterfaceMarshalDefault is false while a deviating InterfaceMarshalFunc is installed.
var InterfaceMarshalDefault = true

// ValueExp is the expected value of field f (for element / Fields positions too). ok=false: f adds no field.
func ValueExp(f Field) (Exp, bool) {
	switch f.M {
	case "Str":
		return S(f.Val.(string)), true
	case "Strs":
		return sliceExp(f.Val, func(v reflect.Value) Exp { return S(v.String()) }), true
	case "Stringer":
		if f.Val == nil {
			return Null(), true
		}
		return S(f.Val.(fmt.Stringer).String()), true
	case "Stringers":
		return sliceExp(f.Val, func(v reflect.Value) Exp {
			if v.IsNil() {
				return Null()
			}
			return S(v.Interface().(fmt.Stringer).String())
		}), true
	case "Bytes":
		b, _ := f.Val.([]byte)
		return S(string(b)), true
	case "Hex":
		b, _ := f.Val.([]byte)
		return Exp{Kind: 's', Str: hex.EncodeToString(b)}, true
	case "RawJSON":
		b, _ := f.Val.([]byte)
		return Raw(string(b)), true
	case "RawCBOR":
		b, _ := f.Val.([]byte)
		return Exp{Kind: 's', Str: "data:application/cbor;base64," + base64.StdEncoding.EncodeToString(b)}, true
	case "AnErr", "Err":
		if !ErrMarshalDefault {
			return Any(), true
		}
		var err error
		if f.Val != nil {
			err = f.Val.(error)
		}
		return errExp(err)
	case "Errs":
		if !ErrMarshalDefault {
			return Any(), true
		}
		return sliceExp(f.Val, func(v reflect.Value) Exp {
			if v.IsNil() {
				// a nil interface element takes the default arm of the type switch: AppendInterface(nil),
				// i.e. whatever InterfaceMarshalFunc makes of nil (a typed nil pointer is written as null)
				return ifaceExp(nil)
			}
			return errElemExp(v.Interface().(error))
		}), true
	case "Bool":
		return B(f.Val.(bool)), true
	case "Bools":
		return sliceExp(f.Val, func(v reflect.Value) Exp { return B(v.Bool()) }), true
	case "Int", "Int8", "Int16", "Int32", "Int64", "Uint", "Uint8", "Uint16", "Uint32", "Uint64":
		s, _ := intText(f.Val)
		return N(s), true
	case "Ints", "Ints8", "Ints16", "Ints32", "Ints64", "Uints", "Uints8", "Uints16", "Uints32", "Uints64":
		return sliceExp(f.Val, func(v reflect.Value) Exp { s, _ := intText(v.Interface()); return N(s) }), true
	case "Float32":
		return FloatExp(float64(f.Val.(float32)), 32), true
	case "Float64":
		return FloatExp(f.Val.(float64), 64), true
	case "Floats32":
		return sliceExp(f.Val, func(v reflect.Value) Exp { return FloatExp(v.Float(), 32) }), true
	case "Floats64":
		return sliceExp(f.Val, func(v reflect.Value) Exp { return FloatExp(v.Float(), 64) }), true
	case "Time":
		return timeExp(f.Val.(time.Time)), true
	case "Times":
		return sliceExp(f.Val, func(v reflect.Value) Exp { return timeExp(v.Interface().(time.Time)) }), true
	case "Timestamp":
		return timeExp(zerolog.TimestampFunc()), true
	case "Dur":
		return durExp(f.Val.(time.Duration)), true
	case "Durs":
		return sliceExp(f.Val, func(v reflect.Value) Exp { return durExp(v.Interface().(time.Duration)) }), true
	case "TimeDiff":
		t, start := f.Val.(time.Time), f.Val2.(time.Time)
		var d time.Duration
		if t.After(start) {
			d = t.Sub(start)
		}
		return durExp(d), true
	case "Interface", "Any":
		if m, ok := f.Val.(zerolog.LogObjectMarshaler); ok {
			return marshalerExp(m), true
		}
		return ifaceExp(f.Val), true
	case "Type":
		if f.Val == nil {
			return S("<nil>"), true
		}
		return S(reflect.TypeOf(f.Val).String()), true
	case "IPAddr":
		ip, _ := f.Val.(net.IP)
		return S(ip.String()), true
	case "IPPrefix":
		p := f.Val.(net.IPNet)
		return S(p.String()), true
	case "MACAddr":
		m, _ := f.Val.(net.HardwareAddr)
		return S(m.String()), true
	case "Dict":
		return Obj(FieldsExp(f.Sub)...), true
	case "Object":
		switch f.Form {
		case "nil":
			return Null(), true
		case "typednil":
			return Obj(), true
		}
		return Obj(FieldsExp(f.Sub)...), true
	case "Array":
		out := Exp{Kind: 'a'}
		for _, sf := range f.Sub {
			out.Items = append(out.Items, ElemExp(sf))
		}
		return out, true
	case "Caller":
		return Any(), true
	}
	return Any(), true
}

func marshalerExp(m zerolog.LogObjectMarshaler) Exp {
	switch o := m.(type) {
	case ObjV:
		return Obj(FieldsExp(o.Fields)...)
	case *ObjP:
		if o == nil {
			return Obj()
		}
		return Obj(FieldsExp(o.Fields)...)
	case ErrObj:
		return Obj(KV{Key: "msg", Exp: S(o.Msg)})
	}
	return Any()
}

// ElemExp is the expected array element for f.
func ElemExp(f Field) Exp {
	if f.M == "Object" && f.Form == "nil" {
		return Obj() // ApplyArray substitutes the typed nil
	}
	e, ok := ValueExp(f)
	if !ok {
		return Null() // nil errors are null inside arrays
	}
	return e
}

// FieldsExp is the ordered list of fields a chain adds to the enclosing object.
func FieldsExp(fs []Field) []KV {
	var out []KV
	stack := false
	for _, f := range fs {
		switch f.M {
		case "Stack":
			stack = true
			continue
		case "Ctx", "CallerSkipFrame":
			continue
		case "EmbedObject":
			if f.Form == "nil" || f.Form == "typednil" {
				continue
			}
			out = append(out, FieldsExp(f.Sub)...)
			continue
		case "Func":
			out = append(out, FieldsExp(f.Sub)...)
			continue
		case "Fields":
			out = append(out, fieldsArgExp(f, stack)...)
			continue
		case "Timestamp":
			e, _ := ValueExp(f)
			out = append(out, KV{Key: zerolog.TimestampFieldName, Exp: e})
			continue
		case "Caller":
			out = append(out, KV{Key: zerolog.CallerFieldName, Exp: Any()})
			continue
		case "Err":
			if stack && zerolog.ErrorStackMarshaler != nil {
				var err error
				if f.Val != nil {
					err = f.Val.(error)
				}
				if kv, present := stackKV(err, false); present {
					out = append(out, kv)
				}
			}
			e, ok := ValueExp(f)
			if !ErrMarshalDefault {
				out = append(out, KV{Key: zerolog.ErrorFieldName, Exp: Any(), Opt: true})
			} else if ok {
				out = append(out, KV{Key: zerolog.ErrorFieldName, Exp: e})
			}
			continue
		case "AnErr":
			e, ok := ValueExp(f)
			if !ErrMarshalDefault {
				out = append(out, KV{Key: f.Key, Exp: Any(), Opt: true})
			} else if ok {
				out = append(out, KV{Key: f.Key, Exp: e})
			}
			continue
		}
		e, ok := ValueExp(f)
		if ok {
			out = append(out, KV{Key: f.Key, Exp: e})
		}
	}
	return out
}

// fieldsArgExp: expectation for Fields(map|slice).
func fieldsArgExp(f Field, stack bool) []KV {
	if f.Val != nil {
		return rawFieldsExp(f.Val, stack)
	}
	subs := append([]Field{}, f.Sub...)
	if f.Form != "slice" {
		// map: keys sorted, duplicates collapse to the last one
		last := map[string]Field{}
		for _, sf := range subs {
			last[sf.Key] = sf
		}
		subs = subs[:0]
		var ks []string
		for k := range last {
			ks = append(ks, k)
		}
		sort.Strings(ks)
		for _, k := range ks {
			subs = append(subs, last[k])
		}
	}
	var out []KV
	for _, sf := range subs {
		e, ok := ValueExp(sf)
		switch sf.M {
		case "AnErr":
			// inside Fields a nil error is null
			if !ErrMarshalDefault {
				e, ok = Any(), true
			} else if !ok {
				e, ok = Null(), true
			}
			out = append(out, KV{Key: sf.Key, Exp: e})
			// (a Fields value that renders itself as an object is written as that object before the error
			// arm, stack included, is ever reached)
			if _, selfRendering := sf.Val.(zerolog.LogObjectMarshaler); stack && zerolog.ErrorStackMarshaler != nil && sf.Val != nil && !selfRendering {
				if kv, present := stackKV(sf.Val.(error), true); present {
					out = append(out, kv)
				}
			}
			continue
		case "Object":
			if sf.Form == "nil" {
				e = Null()
			}
		case "Interface", "Any":
			if ne, isNative := NativeExp(sf.Val); isNative {
				e = ne
			}
		}
		if ok {
			out = append(out, KV{Key: sf.Key, Exp: e})
		}
	}
	return out
}

// stackKV: the stack field of an error logged while the stack flag is set. The documentation says the error
// is passed to ErrorStackMarshaler and the result appended under ErrorStackFieldName: nothing for a nil
// result (or a typed-nil error), the text of an error or string result, an object for a result that renders
// itself, anything else as Interface would render it. (Through Fields a self-rendering result that is also
// an error is written as its text.)
func stackKV(err error, viaFields bool) (KV, bool) {
	key := zerolog.ErrorStackFieldName
	switch m := zerolog.ErrorStackMarshaler(err).(type) {
	case nil:
		return KV{}, false
	case zerolog.LogObjectMarshaler:
		if e, isErr := m.(error); isErr && viaFields {
			if isNilPtr(e) {
				return KV{}, false
			}
			return KV{Key: key, Exp: S(e.Error())}, true
		}
		return KV{Key: key, Exp: Any()}, true
	case error:
		if isNilPtr(m) {
			return KV{}, false
		}
		return KV{Key: key, Exp: S(m.Error())}, true
	case string:
		return KV{Key: key, Exp: S(m)}, true
	default:
		if !InterfaceMarshalDefault {
			return KV{Key: key, Exp: Any()}, true
		}
		return KV{Key: key, Exp: ifaceExp(m)}, true
	}
}

// rawFieldsExp handles Fields() given a literal argument (odd slices, non-string keys, wrong types).
func rawFieldsExp(v interface{}, stack bool) []KV {
	switch a := v.(type) {
	case []interface{}:
		if len(a)%2 == 1 {
			a = a[:len(a)-1]
		}
		var out []KV
		for i := 0; i+1 < len(a); i += 2 {
			k, ok := a[i].(string)
			if !ok {
				continue
			}
			out = append(out, KV{Key: k, Exp: literalExp(a[i+1])})
		}
		return out
	case map[string]interface{}:
		var ks []string
		for k := range a {
			ks = append(ks, k)
		}
		sort.Strings(ks)
		var out []KV
		for _, k := range ks {
			out = append(out, KV{Key: k, Exp: literalExp(a[k])})
		}
		return out
	}
	return nil // any other type adds nothing
}

// NativeExp: values that Fields() encodes with the typed encoders rather than through InterfaceMarshalFunc.
func NativeExp(v interface{}) (Exp, bool) {
	switch x := v.(type) {
	case nil:
		return Null(), true
	case string:
		return S(x), true
	case bool:
		return B(x), true
	case float32:
		return FloatExp(float64(x), 32), true
	case float64:
		return FloatExp(x, 64), true
	case []byte:
		return S(string(x)), true
	case time.Time:
		return timeExp(x), true
	case time.Duration:
		return durExp(x), true
	case int, int8, int16, int32, int64, uint, uint8, uint16, uint32, uint64:
		s, _ := intText(x)
		return N(s), true
	}
	return Exp{}, false
}

// literalExp: expectation for a literal Fields() value: typed pointers dereference (nil -> null), native
// types use the typed encoders, anything else is only required to be valid.
func literalExp(v interface{}) Exp {
	if v == nil {
		return Null()
	}
	rv := reflect.ValueOf(v)
	if rv.Kind() == reflect.Ptr {
		switch v.(type) {
		case *string, *bool, *int, *int8, *int16, *int32, *int64, *uint, *uint8, *uint16, *uint32, *uint64, *float32, *float64, *time.Time, *time.Duration:
			if rv.IsNil() {
				return Null()
			}
			if e, ok := NativeExp(rv.Elem().Interface()); ok {
				return e
			}
		}
		return Any()
	}
	if e, ok := NativeExp(v); ok {
		return e
	}
	return Any()
}
