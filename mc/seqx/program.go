package seqx

import (
	"context"
	"errors"
	"fmt"
	"io"
	"strconv"
	"strings"
	"time"

	"github.com/rs/zerolog"
)

// ---- global settings deviations ----

// Setting is one deviation of a global from its default.
type Setting struct {
	Name  string
	Apply func() (restore func())
}

// FixedNow is what TimestampFunc returns while programs run.
var FixedNow = time.Date(2024, 5, 6, 7, 8, 9, 123456789, time.UTC)

// PinGlobals pins clocks and handlers; called once by every check.
func PinGlobals() {
	zerolog.TimestampFunc = func() time.Time { return FixedNow }
	zerolog.SetGlobalLevel(zerolog.TraceLevel)
	zerolog.DisableSampling(false)
}

func strSetting(name string, p *string, v string) Setting {
	return Setting{fmt.Sprintf("%s=%q", name, v), func() func() { old := *p; *p = v; return func() { *p = old } }}
}

// Settings lists every single deviation.
func Settings() []Setting {
	var out []Setting
	for _, v := range []string{"", `l"v`} {
		out = append(out, strSetting("LevelFieldName", &zerolog.LevelFieldName, v))
	}
	for _, v := range []string{"", "m\n"} {
		out = append(out, strSetting("MessageFieldName", &zerolog.MessageFieldName, v))
	}
	for _, v := range []string{"", `e"r`} {
		out = append(out, strSetting("ErrorFieldName", &zerolog.ErrorFieldName, v))
	}
	for _, v := range []string{"", `t\`} {
		out = append(out, strSetting("TimestampFieldName", &zerolog.TimestampFieldName, v))
	}
	out = append(out, strSetting("ErrorStackFieldName", &zerolog.ErrorStackFieldName, `s"`))
	out = append(out, strSetting("CallerFieldName", &zerolog.CallerFieldName, "c\xff"))
	out = append(out, strSetting("LevelInfoValue", &zerolog.LevelInfoValue, "i\"\n"))
	for _, v := range []string{zerolog.TimeFormatUnix, zerolog.TimeFormatUnixMs, zerolog.TimeFormatUnixMicro, zerolog.TimeFormatUnixNano, time.RFC3339Nano, "2006-01-02 15:04 é", time.RFC1123} {
		out = append(out, strSetting("TimeFieldFormat", &zerolog.TimeFieldFormat, v))
	}
	for _, u := range []time.Duration{time.Nanosecond, time.Microsecond, time.Second, 3} {
		u := u
		out = append(out, Setting{fmt.Sprintf("DurationFieldUnit=%d", u), func() func() {
			old := zerolog.DurationFieldUnit
			zerolog.DurationFieldUnit = u
			return func() { zerolog.DurationFieldUnit = old }
		}})
	}
	out = append(out, Setting{"DurationFieldInteger=true", func() func() {
		zerolog.DurationFieldInteger = true
		return func() { zerolog.DurationFieldInteger = false }
	}})
	for _, p := range []int{0, 3} {
		p := p
		out = append(out, Setting{fmt.Sprintf("FloatingPointPrecision=%d", p), func() func() {
			old := zerolog.FloatingPointPrecision
			zerolog.FloatingPointPrecision = p
			return func() { zerolog.FloatingPointPrecision = old }
		}})
	}
	shapes := []struct {
		name string
		f    func(err error) interface{}
	}{
		{"nil", func(err error) interface{} { return nil }},
		{"string", func(err error) interface{} {
			if err == nil {
				return "S:<nil>\""
			}
			return "S:" + err.Error()
		}},
		{"error", func(err error) interface{} { return fmt.Errorf("wrapped\n: %v", err) }},
		{"typednil", func(err error) interface{} { return (*PErr)(nil) }},
		{"marshaler", func(err error) interface{} { return ErrObj{"mo\""} }},
		{"emptymarshaler", func(err error) interface{} { return ObjV{} }},
		{"other", func(err error) interface{} { return 42 }},
	}
	for _, sh := range shapes {
		sh := sh
		out = append(out, Setting{"ErrorMarshalFunc->" + sh.name, func() func() {
			old := zerolog.ErrorMarshalFunc
			zerolog.ErrorMarshalFunc = sh.f
			ErrMarshalDefault = false
			return func() { zerolog.ErrorMarshalFunc = old; ErrMarshalDefault = true }
		}})
	}
	for _, sh := range shapes {
		sh := sh
		out = append(out, Setting{"ErrorStackMarshaler->" + sh.name, func() func() {
			zerolog.ErrorStackMarshaler = sh.f
			return func() { zerolog.ErrorStackMarshaler = nil }
		}})
	}
	out = append(out, Setting{"InterfaceMarshalFunc->error", func() func() {
		old := zerolog.InterfaceMarshalFunc
		zerolog.InterfaceMarshalFunc = func(v interface{}) ([]byte, error) { return nil, errors.New("cannot \"marshal\"\n") }
		InterfaceMarshalDefault = false
		return func() { zerolog.InterfaceMarshalFunc = old; InterfaceMarshalDefault = true }
	}})
	out = append(out, Setting{"InterfaceMarshalFunc->const", func() func() {
		old := zerolog.InterfaceMarshalFunc
		zerolog.InterfaceMarshalFunc = func(v interface{}) ([]byte, error) { return []byte(`{"c":[1]}`), nil }
		InterfaceMarshalDefault = false
		return func() { zerolog.InterfaceMarshalFunc = old; InterfaceMarshalDefault = true }
	}})
	out = append(out, Setting{"LevelFieldMarshalFunc->custom", func() func() {
		old := zerolog.LevelFieldMarshalFunc
		zerolog.LevelFieldMarshalFunc = func(l zerolog.Level) string { return "L\"" + strings.ToUpper(RefLevelName(l)) + "\n" }
		LevelMarshalDefault = false
		return func() { zerolog.LevelFieldMarshalFunc = old; LevelMarshalDefault = true }
	}})
	out = append(out, Setting{"CallerMarshalFunc->custom", func() func() {
		old := zerolog.CallerMarshalFunc
		zerolog.CallerMarshalFunc = func(pc uintptr, file string, line int) string { return "c\"\n\xff" }
		return func() { zerolog.CallerMarshalFunc = old }
	}})
	return out
}

// LevelMarshalDefault is false while a deviating LevelFieldMarshalFunc is installed.
var LevelMarshalDefault = true

// RefLevelName is the documented text form of a level, written out here so that the reference does not lean
// on Level.String(): the Level*Value variables for the seven named levels, "disabled", "" for NoLevel, the
// decimal number otherwise.
func RefLevelName(l zerolog.Level) string {
	switch l {
	case zerolog.TraceLevel:
		return zerolog.LevelTraceValue
	case zerolog.DebugLevel:
		return zerolog.LevelDebugValue
	case zerolog.InfoLevel:
		return zerolog.LevelInfoValue
	case zerolog.WarnLevel:
		return zerolog.LevelWarnValue
	case zerolog.ErrorLevel:
		return zerolog.LevelErrorValue
	case zerolog.FatalLevel:
		return zerolog.LevelFatalValue
	case zerolog.PanicLevel:
		return zerolog.LevelPanicValue
	case zerolog.Disabled:
		return "disabled"
	case zerolog.NoLevel:
		return ""
	}
	return strconv.Itoa(int(l))
}

func refLevelText(l zerolog.Level) string {
	if LevelMarshalDefault {
		return RefLevelName(l)
	}
	return zerolog.LevelFieldMarshalFunc(l)
}

// ---- hooks ----

// HookLog records hook invocations of one program run.
type HookLog struct {
	Calls []string // "<id>:<level>:<msg>"
	Ctxs  []context.Context
}

type addHook struct {
	id  int
	log *HookLog
}

func (h addHook) Run(e *zerolog.Event, l zerolog.Level, msg string) {
	h.log.Calls = append(h.log.Calls, fmt.Sprintf("%d:%d:%s", h.id, l, msg))
	e.Str(fmt.Sprintf("h%d", h.id), fmt.Sprintf("%d|%s", l, msg))
}

type discardHook struct {
	id  int
	log *HookLog
}

func (h discardHook) Run(e *zerolog.Event, l zerolog.Level, msg string) {
	h.log.Calls = append(h.log.Calls, fmt.Sprintf("%d:%d:%s", h.id, l, msg))
	e.Discard()
}

type ctxHook struct {
	id  int
	log *HookLog
}

func (h ctxHook) Run(e *zerolog.Event, l zerolog.Level, msg string) {
	h.log.Calls = append(h.log.Calls, fmt.Sprintf("%d:%d:%s", h.id, l, msg))
	h.log.Ctxs = append(h.log.Ctxs, e.GetCtx())
}

// ---- logger derivation steps ----

// Step derives a logger from a logger.
type Step struct {
	Op     string  // With | Hook | HookNone | HookDiscard | HookCtx | HookLevel | Timestamp | Caller | Ctx | Level | Output | Sample | UpdateContext | Stack | Reset | WithEmpty
	Fields []Field // With / UpdateContext
	Hooks  []int   // Hook
	Level  zerolog.Level
	CtxID  int
}

func (s Step) String() string {
	switch s.Op {
	case "With", "UpdateContext":
		return fmt.Sprintf("%s%v", s.Op, s.Fields)
	case "Hook":
		return fmt.Sprintf("Hook%v", s.Hooks)
	case "Level":
		return fmt.Sprintf("Level(%d)", s.Level)
	case "Ctx":
		return fmt.Sprintf("With().Ctx(c%d)", s.CtxID)
	}
	return s.Op
}

type ctxKey struct{}

// GoCtx returns the i-th distinguishable Go context.
func GoCtx(i int) context.Context { return context.WithValue(context.Background(), ctxKey{}, i) }

// CtxID identifies a context produced by GoCtx (0 = background / none).
func CtxID(c context.Context) int {
	if c == nil {
		return -1
	}
	if v, ok := c.Value(ctxKey{}).(int); ok {
		return v
	}
	return 0
}

// admitAll is the sampler of the "Sample" step. In spite of its name it rejects exactly the events at
// WarnLevel, so that which sampler a derivation path carries is observable (an always-admitting sampler
// cannot be told from none).
type admitAll struct{}

func (admitAll) Sample(l zerolog.Level) bool { return l != zerolog.WarnLevel }

// RefLogger is the abstract state of a logger (reflogger).
type RefLogger struct {
	Ctx     []KV
	Hooks   []RefHook
	Level   zerolog.Level
	Stack   bool
	GoCtx   int
	Writer  int
	Discard bool // the destination is io.Discard / nil: nothing reaches the recording writers
	Sampler bool
}

// RefHook is an abstract hook.
type RefHook struct {
	Kind   string // add | discard | ctx | timestamp | caller | chain
	ID     int
	Fields []Field
}

type chainHook struct{ fields []Field }

func (h chainHook) Run(e *zerolog.Event, l zerolog.Level, msg string) {
	for _, f := range h.fields {
		ApplyEvent(e, f)
	}
}

// MatchHookCalls compares the invocation log with the expected one ("*" level = any).
func MatchHookCalls(got, want []string) bool {
	one := func(g, w string) bool {
		if g == w {
			return true
		}
		gp := strings.SplitN(g, ":", 3)
		wp := strings.SplitN(w, ":", 3)
		return len(gp) == 3 && len(wp) == 3 && gp[0] == wp[0] && gp[2] == wp[2] && wp[1] == "*"
	}
	i := 0
	for _, w := range want {
		if strings.HasPrefix(w, "?") { // an optional call
			if i < len(got) && one(got[i], w[1:]) {
				i++
			}
			continue
		}
		if i >= len(got) || !one(got[i], w) {
			return false
		}
		i++
	}
	return i == len(got)
}

// Clone copies the model state.
func (r RefLogger) Clone() RefLogger {
	r.Ctx = append([]KV{}, r.Ctx...)
	r.Hooks = append([]RefHook{}, r.Hooks...)
	return r
}

// World carries the writers and the hook log shared by the loggers of one program.
type World struct {
	Writers []io.Writer
	Log     *HookLog
}

// ApplyStep derives (logger, model) from (logger, model).
func ApplyStep(w *World, lg zerolog.Logger, m RefLogger, s Step) (zerolog.Logger, RefLogger) {
	m = m.Clone()
	switch s.Op {
	case "With":
		c := lg.With()
		for _, f := range s.Fields {
			c = ApplyContext(c, f)
		}
		lg = c.Logger()
		m.Ctx = append(m.Ctx, ctxFieldsExp(s.Fields, &m)...)
	case "WithEmpty":
		lg = lg.With().Logger()
	case "Reset":
		lg = lg.With().Reset().Logger()
		m.Ctx = nil
	case "UpdateReset":
		// in place, on the logger value itself (no With() first): loggers copied from it by value earlier (Hook,
		// Level, Sample) share its context bytes and must not be touched by the reset
		lg.UpdateContext(func(c zerolog.Context) zerolog.Context {
			c = c.Reset()
			for _, f := range s.Fields {
				c = ApplyContext(c, f)
			}
			return c
		})
		m.Ctx = nil
		m.Ctx = append(m.Ctx, ctxFieldsExp(s.Fields, &m)...)
	case "UpdateContext":
		lg = lg.With().Logger()
		lg.UpdateContext(func(c zerolog.Context) zerolog.Context {
			for _, f := range s.Fields {
				c = ApplyContext(c, f)
			}
			return c
		})
		m.Ctx = append(m.Ctx, ctxFieldsExp(s.Fields, &m)...)
	case "Hook":
		var hs []zerolog.Hook
		for _, id := range s.Hooks {
			hs = append(hs, addHook{id, w.Log})
			m.Hooks = append(m.Hooks, RefHook{Kind: "add", ID: id})
		}
		// the list is built with spare capacity and is the caller's: after the call the caller reuses it
		// (overwrites its elements, appends to it) - the logger must have taken its own copy
		hs = append(make([]zerolog.Hook, 0, len(hs)+2), hs...)
		lg = lg.Hook(hs...)
		for i := range hs {
			hs[i] = addHook{900 + i, w.Log}
		}
		_ = append(hs, addHook{950, w.Log})
	case "HookChain":
		lg = lg.Hook(chainHook{s.Fields})
		m.Hooks = append(m.Hooks, RefHook{Kind: "chain", Fields: s.Fields})
	case "HookLevel":
		// the library's own per-level dispatcher: one distinguishable hook per named level and one for NoLevel
		lg = lg.Hook(zerolog.LevelHook{TraceHook: addHook{60, w.Log}, DebugHook: addHook{61, w.Log}, InfoHook: addHook{62, w.Log}, WarnHook: addHook{63, w.Log},
			ErrorHook: addHook{64, w.Log}, FatalHook: addHook{65, w.Log}, PanicHook: addHook{66, w.Log}, NoLevelHook: addHook{67, w.Log}})
		m.Hooks = append(m.Hooks, RefHook{Kind: "level"})
	case "HookNone":
		lg = lg.Hook()
	case "HookDiscard":
		lg = lg.Hook(discardHook{90, w.Log})
		m.Hooks = append(m.Hooks, RefHook{Kind: "discard", ID: 90})
	case "HookCtx":
		lg = lg.Hook(ctxHook{91, w.Log})
		m.Hooks = append(m.Hooks, RefHook{Kind: "ctx", ID: 91})
	case "Timestamp":
		lg = lg.With().Timestamp().Logger()
		m.Hooks = append(m.Hooks, RefHook{Kind: "timestamp"})
	case "Caller":
		lg = lg.With().Caller().Logger()
		m.Hooks = append(m.Hooks, RefHook{Kind: "caller"})
	case "Ctx":
		lg = lg.With().Ctx(GoCtx(s.CtxID)).Logger()
		m.GoCtx = s.CtxID
	case "Stack":
		lg = lg.With().Stack().Logger()
		m.Stack = true
	case "Level":
		lg = lg.Level(s.Level)
		m.Level = s.Level
	case "Output":
		m.Writer = (m.Writer + 1) % len(w.Writers)
		lg = lg.Output(w.Writers[m.Writer])
		m.Discard = false
	case "OutputDiscard": // a logger that writes nowhere is still a logger: hooks, callbacks and marshalers run
		lg = lg.Output(io.Discard)
		m.Discard = true
	case "OutputNil":
		lg = lg.Output(nil)
		m.Discard = true
	case "Sample":
		lg = lg.Sample(admitAll{})
		m.Sampler = true
	case "SampleNil":
		lg = lg.Sample(nil)
		m.Sampler = false
	default:
		panic("seqx: unknown step " + s.Op)
	}
	return lg, m
}

// ctxFieldsExp: expectation for fields added through a Context (Stack() changes the logger's flag;
// Timestamp() and Caller() on a Context register hooks, they are not context fields).
func ctxFieldsExp(fs []Field, m *RefLogger) []KV {
	var pre []Field
	if m.Stack {
		pre = append(pre, Field{M: "Stack"})
	}
	for _, f := range fs {
		switch f.M {
		case "Stack":
			m.Stack = true
		case "Timestamp":
			m.Hooks = append(m.Hooks, RefHook{Kind: "timestamp"})
			continue
		case "Caller":
			m.Hooks = append(m.Hooks, RefHook{Kind: "caller"})
			continue
		case "Ctx":
			if c, ok := f.Val.(context.Context); ok {
				m.GoCtx = CtxID(c)
			}
		}
		pre = append(pre, f)
	}
	return FieldsExp(pre)
}

// ---- events ----

// Entry is the way an event is started.
type Entry struct {
	Kind  string // Trace Debug Info Warn Error Log WithLevel Err ErrNil Panic
	Level zerolog.Level
}

// Start begins the event on lg.
func (en Entry) Start(lg *zerolog.Logger) *zerolog.Event {
	switch en.Kind {
	case "Trace":
		return lg.Trace()
	case "Debug":
		return lg.Debug()
	case "Info":
		return lg.Info()
	case "Warn":
		return lg.Warn()
	case "Error":
		return lg.Error()
	case "Log":
		return lg.Log()
	case "WithLevel":
		return lg.WithLevel(en.Level)
	case "Err":
		return lg.Err(errors.New("entry-err"))
	case "ErrNil":
		return lg.Err(nil)
	}
	panic("seqx: unknown entry " + en.Kind)
}

// EffLevel is the level of the started event.
func (en Entry) EffLevel() zerolog.Level {
	switch en.Kind {
	case "Trace":
		return zerolog.TraceLevel
	case "Debug":
		return zerolog.DebugLevel
	case "Info", "ErrNil":
		return zerolog.InfoLevel
	case "Warn":
		return zerolog.WarnLevel
	case "Error", "Err":
		return zerolog.ErrorLevel
	case "Log":
		return zerolog.NoLevel
	}
	return en.Level
}

// Final is the finaliser.
type Final struct {
	Kind string // Msg Msgf MsgFunc Send
	Text string
}

// Finish finalises e and returns the message it carries.
func (fi Final) Finish(e *zerolog.Event) {
	switch fi.Kind {
	case "Msg":
		e.Msg(fi.Text)
	case "Msgf":
		e.Msgf("%s", fi.Text)
	case "MsgfRaw": // the text IS the format, no arguments: fmt semantics still apply ("%%" is one percent sign)
		e.Msgf(fi.Text)
	case "MsgfArgs":
		e.Msgf("%d%%/%s|%v", 7, fi.Text, nil)
	case "MsgFunc":
		e.MsgFunc(func() string { return fi.Text })
	case "Send":
		e.Send()
	default:
		panic("seqx: unknown finaliser " + fi.Kind)
	}
}

// Message is the message text of the finaliser.
func (fi Final) Message() string {
	switch fi.Kind {
	case "Send":
		return ""
	case "MsgfRaw":
		return fmt.Sprintf(fi.Text)
	case "MsgfArgs":
		return fmt.Sprintf("%d%%/%s|%v", 7, fi.Text, nil)
	}
	return fi.Text
}

// Expected is what the reference model predicts for one event.
type Expected struct {
	Written   bool
	Fields    []KV
	HookCalls []string // expected invocation log (ids in order), for events that pass the gate
	GoCtx     int
}

// ExpectEvent computes the expected layout of an event emitted by a logger in model state m.
func ExpectEvent(m RefLogger, en Entry, fs []Field, fi Final) Expected {
	lvl := en.EffLevel()
	var ex Expected
	ex.GoCtx = m.GoCtx
	passes := lvl >= m.Level && lvl >= zerolog.GlobalLevel() && lvl != zerolog.Disabled && !(m.Sampler && lvl == zerolog.WarnLevel)
	if !passes {
		return ex
	}
	ex.Written = true
	if lvl != zerolog.NoLevel && zerolog.LevelFieldName != "" {
		ex.Fields = append(ex.Fields, KV{Key: zerolog.LevelFieldName, Exp: S(refLevelText(lvl))})
	}
	ex.Fields = append(ex.Fields, m.Ctx...)
	var chain []Field
	if m.Stack {
		chain = append(chain, Field{M: "Stack"})
	}
	if en.Kind == "Err" {
		chain = append(chain, Field{M: "Err", Val: errors.New("entry-err")})
	}
	chain = append(chain, fs...)
	ex.Fields = append(ex.Fields, FieldsExp(chain)...)
	msg := fi.Message()
	discarded := false
	for _, h := range m.Hooks {
		switch h.Kind {
		case "add", "discard", "ctx":
			// a hook that runs after a discarding hook may be handed the original level or Disabled
			l := fmt.Sprint(int(lvl))
			if discarded {
				l = "*"
			}
			ex.HookCalls = append(ex.HookCalls, fmt.Sprintf("%d:%s:%s", h.ID, l, msg))
		}
		if h.Kind == "level" {
			// LevelHook runs the hook configured for the level it is handed - trace..panic and NoLevel have one, every
			// other level (Disabled, custom levels) has none. After a discarding hook it may be handed the original level
			// or Disabled: the call is optional then ("?").
			if lvl >= zerolog.TraceLevel && lvl <= zerolog.NoLevel {
				id := 61 + int(lvl)
				if discarded {
					ex.HookCalls = append(ex.HookCalls, fmt.Sprintf("?%d:*:%s", id, msg))
				} else {
					ex.HookCalls = append(ex.HookCalls, fmt.Sprintf("%d:%d:%s", id, int(lvl), msg))
					ex.Fields = append(ex.Fields, KV{Key: fmt.Sprintf("h%d", id), Exp: S(fmt.Sprintf("%d|%s", lvl, msg))})
				}
			}
		}
		switch h.Kind {
		case "add":
			ex.Fields = append(ex.Fields, KV{Key: fmt.Sprintf("h%d", h.ID), Exp: S(fmt.Sprintf("%d|%s", lvl, msg))})
		case "chain":
			ex.Fields = append(ex.Fields, FieldsExp(h.Fields)...)
		case "discard":
			discarded = true
			ex.Written = false
		case "timestamp":
			ex.Fields = append(ex.Fields, KV{Key: zerolog.TimestampFieldName, Exp: timeExp(zerolog.TimestampFunc())})
		case "caller":
			ex.Fields = append(ex.Fields, KV{Key: zerolog.CallerFieldName, Exp: Any()})
		}
	}
	if msg != "" {
		ex.Fields = append(ex.Fields, KV{Key: zerolog.MessageFieldName, Exp: S(msg)})
	}
	if m.Discard {
		ex.Written = false // (the hook calls above are still expected)
	}
	return ex
}
