package seqx

import (
	"bytes"
	"fmt"
	"strings"

	"github.com/rs/zerolog"
)

// Program is one complete logging program.
type Program struct {
	Settings []int // indices into Settings()
	// Sibling, if set, is applied to the logger reached BEFORE the last step of Steps, after that last
	// step was applied (a second child of the same parent, created before the first child logs).
	Sibling *Step
	Steps   []Step
	Entry   Entry
	Fields  []Field
	Final   Final
}

func (p Program) String() string {
	var sb strings.Builder
	fmt.Fprintf(&sb, "New(w)")
	for _, s := range p.Steps {
		fmt.Fprintf(&sb, ".%s", s)
	}
	if p.Sibling != nil {
		fmt.Fprintf(&sb, " [sibling of the last step: %s]", *p.Sibling)
	}
	fmt.Fprintf(&sb, " ; %s", p.Entry.Kind)
	if p.Entry.Kind == "WithLevel" {
		fmt.Fprintf(&sb, "(%d)", p.Entry.Level)
	}
	for _, f := range p.Fields {
		fmt.Fprintf(&sb, ".%s", f)
	}
	fmt.Fprintf(&sb, ".%s(%q)", p.Final.Kind, p.Final.Text)
	return sb.String()
}

// Output of one program run.
type Output struct {
	Lines    [][]byte // one entry per Write call, writer 0
	Lines1   [][]byte // writer 1 (after Output)
	HookLog  *HookLog
	Panic    string
	Expected Expected
}

type sliceWriter struct{ lines *[][]byte }

func (w sliceWriter) Write(p []byte) (int, error) {
	*w.lines = append(*w.lines, append([]byte{}, p...))
	return len(p), nil
}

var allSettings []Setting

// AllSettings caches Settings().
func AllSettings() []Setting {
	if allSettings == nil {
		allSettings = Settings()
	}
	return allSettings
}

// Run executes p on the real zerolog and computes the model's expectation under the same settings.
func Run(p Program) (out Output) {
	var restores []func()
	for _, si := range p.Settings {
		restores = append(restores, AllSettings()[si].Apply())
	}
	defer func() {
		for i := len(restores) - 1; i >= 0; i-- {
			restores[i]()
		}
	}()
	out.HookLog = &HookLog{}
	w := &World{Log: out.HookLog}
	w0, w1 := sliceWriter{&out.Lines}, sliceWriter{&out.Lines1}
	w.Writers = append(w.Writers, w0, w1)
	func() {
		defer func() {
			if r := recover(); r != nil {
				out.Panic = fmt.Sprint(r)
			}
		}()
		lg := zerolog.New(w0)
		m := RefLogger{Level: zerolog.TraceLevel}
		for i, s := range p.Steps {
			parent, pm := lg, m
			lg, m = ApplyStep(w, lg, m, s)
			if p.Sibling != nil && i == len(p.Steps)-1 {
				sib, sm := ApplyStep(w, parent, pm, *p.Sibling)
				// the sibling logs first: whatever it shares with the first child gets written now
				sib.Log().Msg("sibling")
				_ = sm
				out.Lines, out.Lines1 = nil, nil
				out.HookLog.Calls, out.HookLog.Ctxs = nil, nil
			}
		}
		e := p.Entry.Start(&lg)
		for _, f := range p.Fields {
			e = ApplyEvent(e, f)
		}
		p.Final.Finish(e)
		out.Expected = ExpectEvent(m, p.Entry, p.Fields, p.Final)
		if m.Writer == 1 {
			out.Lines, out.Lines1 = out.Lines1, out.Lines
		}
	}()
	return
}

// Render joins lines for messages.
func Render(lines [][]byte) string {
	return string(bytes.Join(lines, []byte("|")))
}
