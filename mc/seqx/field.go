// Package seqx is Engine Q: bounded-exhaustive enumeration of logging programs
// (global settings x logger derivation x chain of field operations x finaliser),
// their execution on the real zerolog through reflection over the public method
// sets, and the reference expectations (refenc / reflogger) they are compared with.
package seqx

import (
	"context"
	"errors"
	"fmt"
	"reflect"
	"sort"
	"strings"

	"github.com/rs/zerolog"
)

// Field is one field-adding operation, independent of where it is applied
// (Event, Context, Array element, Fields map/slice entry).
type Field struct {
	M    string      // method name on *Event / Context ("Str", "Ints8", "Dict", "Object", "Fields", ...)
	Key  string      // key argument, if the method takes one
	Val  interface{} // value argument for scalar/slice methods
	Val2 interface{} // second value (TimeDiff)
	Sub  []Field     // content of a container (Dict/Object/EmbedObject/Array/Fields/Func)
	Form string      // container form: "" | "val" (Object with a value marshaler) | "ptr" | "nil" | "typednil" | "arr" | "marsh" | "map" | "slice"
}

func (f Field) String() string {
	var sb strings.Builder
	sb.WriteString(f.M)
	sb.WriteByte('(')
	if hasKey(f.M) {
		fmt.Fprintf(&sb, "%q", f.Key)
		if f.Val != nil || len(f.Sub) > 0 || f.Form != "" {
			sb.WriteString(", ")
		}
	}
	switch {
	case len(f.Sub) > 0 || f.Form != "":
		fmt.Fprintf(&sb, "%s%v", f.Form, f.Sub)
	case f.Val != nil:
		sb.WriteString(fmtVal(f.Val))
		if f.Val2 != nil {
			sb.WriteString(", " + fmtVal(f.Val2))
		}
	default:
		if needsVal(f.M) {
			sb.WriteString("nil")
		}
	}
	sb.WriteByte(')')
	return sb.String()
}

func fmtVal(v interface{}) string {
	switch x := v.(type) {
	case string:
		return fmt.Sprintf("%q", x)
	case []byte:
		return fmt.Sprintf("[]byte(%q)", string(x))
	case error:
		if isNilPtr(x) {
			return "(*E)(nil)"
		}
		return fmt.Sprintf("err(%q)", x.Error())
	case fmt.Stringer:
		if isNilPtr(x) {
			return "(*S)(nil)"
		}
		return fmt.Sprintf("%T(%q)", x, x.String())
	}
	s := fmt.Sprintf("%T(%v)", v, v)
	if len(s) > 120 {
		s = s[:120] + "..."
	}
	return s
}

func isNilPtr(v interface{}) bool {
	rv := reflect.ValueOf(v)
	return rv.Kind() == reflect.Ptr && rv.IsNil()
}

// methods without a key argument
var noKey = map[string]bool{"Err": true, "EmbedObject": true, "Fields": true, "Func": true, "Timestamp": true, "Stack": true, "Caller": true, "Ctx": true, "CallerSkipFrame": true}

func hasKey(m string) bool { return !noKey[m] }
func needsVal(m string) bool {
	switch m {
	case "Timestamp", "Stack", "Caller":
		return false
	}
	return true
}

// ---- marshalers used as container values ----

// ObjV is a LogObjectMarshaler with a value receiver.
type ObjV struct{ Fields []Field }

func (o ObjV) MarshalZerologObject(e *zerolog.Event) {
	for _, f := range o.Fields {
		ApplyEvent(e, f)
	}
}

// ObjP is a LogObjectMarshaler with a pointer receiver that tolerates a nil receiver.
type ObjP struct{ Fields []Field }

func (o *ObjP) MarshalZerologObject(e *zerolog.Event) {
	if o == nil {
		return
	}
	for _, f := range o.Fields {
		ApplyEvent(e, f)
	}
}

// ArrM is a custom LogArrayMarshaler.
type ArrM struct{ Fields []Field }

func (a ArrM) MarshalZerologArray(arr *zerolog.Array) {
	for _, f := range a.Fields {
		ApplyArray(arr, f)
	}
}

// ErrObj is an error that is also a LogObjectMarshaler.
type ErrObj struct{ Msg string }

func (e ErrObj) Error() string { return e.Msg }
func (e ErrObj) MarshalZerologObject(ev *zerolog.Event) {
	ev.Str("msg", e.Msg)
}

// PErr is an error with a pointer receiver (typed nil possible).
type PErr struct{ Msg string }

func (e *PErr) Error() string {
	if e == nil {
		return "<nil PErr>"
	}
	return e.Msg
}

// Str is a fmt.Stringer; PStr one with a pointer receiver.
// BadJSON fails to marshal, with an error text that itself needs escaping.
type BadJSON struct{ Text string }

func (b BadJSON) MarshalJSON() ([]byte, error) { return nil, errors.New(b.Text) }

// IndentedJSON marshals to valid JSON spread over several lines (encoding/json compacts it).
type IndentedJSON struct{}

func (IndentedJSON) MarshalJSON() ([]byte, error) {
	return []byte("{\n  \"a\": 1,\n\t\"b\": [ true , null ]\r\n}"), nil
}

type Str string

func (s Str) String() string { return string(s) }

type PStr struct{ S string }

func (s *PStr) String() string {
	if s == nil {
		return "<nil PStr>"
	}
	return s.S
}

// CtxProbe is a LogObjectMarshaler that records the Go context seen through GetCtx.
type CtxProbe struct{ Seen *[]context.Context }

func (c CtxProbe) MarshalZerologObject(e *zerolog.Event) {
	*c.Seen = append(*c.Seen, e.GetCtx())
	e.Str("probe", "p")
}

// CtxProbeErr is the same as an error that renders itself as an object (Err, Errs, Array.Err, Fields).
type CtxProbeErr struct{ Seen *[]context.Context }

func (c CtxProbeErr) Error() string { return "ctxprobe" }
func (c CtxProbeErr) MarshalZerologObject(e *zerolog.Event) {
	*c.Seen = append(*c.Seen, e.GetCtx())
	e.Str("probe", "pe")
}

// ---- application ----

func buildDict(sub []Field) *zerolog.Event {
	d := zerolog.Dict()
	for _, f := range sub {
		d = ApplyEvent(d, f)
	}
	return d
}

func buildArr(sub []Field) *zerolog.Array {
	a := zerolog.Arr()
	for _, f := range sub {
		ApplyArray(a, f)
	}
	return a
}

func objArg(f Field) zerolog.LogObjectMarshaler {
	switch f.Form {
	case "nil":
		return nil
	case "typednil":
		return (*ObjP)(nil)
	case "ptr":
		return &ObjP{Fields: f.Sub}
	}
	return ObjV{Fields: f.Sub}
}

// FieldsArg builds the argument of Fields() from a sub chain.
func FieldsArg(f Field) interface{} {
	if f.Form == "slice" {
		var s []interface{}
		for _, sf := range f.Sub {
			s = append(s, sf.Key, fieldsValue(sf))
		}
		return s
	}
	m := map[string]interface{}{}
	for _, sf := range f.Sub {
		m[sf.Key] = fieldsValue(sf)
	}
	return m
}

// fieldsValue is the Go value that stands for the field inside Fields().
func fieldsValue(f Field) interface{} {
	switch f.M {
	case "Object":
		return objArg(f)
	case "Dict":
		return ObjV{Fields: f.Sub}
	}
	return f.Val
}

// HasFieldsForm reports whether the field can be expressed as a Fields() entry with identical meaning.
func HasFieldsForm(f Field) bool {
	switch f.M {
	case "Hex", "RawCBOR", "Type", "TimeDiff", "Timestamp", "EmbedObject", "Fields", "Func", "Array", "Stack", "Caller", "Err", "Stringer", "Stringers", "Ctx":
		return false
	case "RawJSON": // only json.RawMessage is raw in Fields
		return false
	case "Bytes": // []byte in Fields is AppendBytes as well
		return true
	case "Uints8": // []uint8 is []byte in a type switch
		return false
	case "Errs", "AnErr":
		return true
	case "Interface", "Any":
		// inside Fields a []byte is a string (AppendBytes), not what encoding/json makes of it
		_, isBytes := f.Val.([]byte)
		return !isBytes
	case "Object":
		return f.Form != "nil" // untyped nil loses its type
	}
	return true
}

var (
	evType  = reflect.TypeOf((*zerolog.Event)(nil))
	ctxType = reflect.TypeOf(zerolog.Context{})
	arrType = reflect.TypeOf((*zerolog.Array)(nil))
)

func callArgs(mt reflect.Type, vals ...interface{}) []reflect.Value {
	args := make([]reflect.Value, len(vals))
	for i, v := range vals {
		pt := mt.In(i)
		if mt.IsVariadic() && i == mt.NumIn()-1 {
			pt = pt.Elem()
		}
		if v == nil {
			args[i] = reflect.Zero(pt)
			continue
		}
		rv := reflect.ValueOf(v)
		if rv.Type() != pt && rv.Type().ConvertibleTo(pt) && pt.Kind() != reflect.Interface {
			rv = rv.Convert(pt)
		}
		args[i] = rv
	}
	return args
}

// ApplyEvent applies f to an event through the public method named f.M.
func ApplyEvent(e *zerolog.Event, f Field) *zerolog.Event {
	switch f.M {
	case "Dict":
		return e.Dict(f.Key, buildDict(f.Sub))
	case "Object":
		return e.Object(f.Key, objArg(f))
	case "EmbedObject":
		return e.EmbedObject(objArg(f))
	case "Array":
		if f.Form == "marsh" {
			return e.Array(f.Key, ArrM{Fields: f.Sub})
		}
		return e.Array(f.Key, buildArr(f.Sub))
	case "Fields":
		if f.Val != nil {
			return e.Fields(f.Val)
		}
		return e.Fields(FieldsArg(f))
	case "Func":
		return e.Func(func(e *zerolog.Event) {
			for _, sf := range f.Sub {
				ApplyEvent(e, sf)
			}
		})
	}
	m := reflect.ValueOf(e).MethodByName(f.M)
	if !m.IsValid() {
		panic("seqx: no Event method " + f.M)
	}
	mt := m.Type()
	var out []reflect.Value
	switch {
	case mt.NumIn() == 0:
		out = m.Call(nil)
	case !hasKey(f.M):
		out = m.Call(callArgs(mt, f.Val))
	case mt.NumIn() == 3:
		out = m.Call(callArgs(mt, f.Key, f.Val, f.Val2))
	default:
		out = m.Call(callArgs(mt, f.Key, f.Val))
	}
	if len(out) == 1 {
		if r, ok := out[0].Interface().(*zerolog.Event); ok {
			return r
		}
	}
	return e
}

// HasContextForm reports whether Context has a method of that name.
func HasContextForm(f Field) bool {
	switch f.M {
	case "Func", "TimeDiff", "RawCBOR":
		_, ok := ctxType.MethodByName(f.M)
		return ok
	}
	_, ok := ctxType.MethodByName(f.M)
	return ok
}

// ApplyContext applies f to a Context.
func ApplyContext(c zerolog.Context, f Field) zerolog.Context {
	switch f.M {
	case "Dict":
		return c.Dict(f.Key, buildDict(f.Sub))
	case "Object":
		return c.Object(f.Key, objArg(f))
	case "EmbedObject":
		return c.EmbedObject(objArg(f))
	case "Array":
		if f.Form == "marsh" {
			return c.Array(f.Key, ArrM{Fields: f.Sub})
		}
		return c.Array(f.Key, buildArr(f.Sub))
	case "Fields":
		if f.Val != nil {
			return c.Fields(f.Val)
		}
		return c.Fields(FieldsArg(f))
	}
	m := reflect.ValueOf(c).MethodByName(f.M)
	if !m.IsValid() {
		panic("seqx: no Context method " + f.M)
	}
	mt := m.Type()
	var out []reflect.Value
	switch {
	case mt.NumIn() == 0:
		out = m.Call(nil)
	case !hasKey(f.M):
		out = m.Call(callArgs(mt, f.Val))
	case mt.NumIn() == 3:
		out = m.Call(callArgs(mt, f.Key, f.Val, f.Val2))
	default:
		out = m.Call(callArgs(mt, f.Key, f.Val))
	}
	return out[0].Interface().(zerolog.Context)
}

// arrayMethod maps an Event method name to the Array method adding the same value as an element.
func arrayMethod(f Field) string {
	switch f.M {
	case "AnErr":
		return "Err"
	case "Any":
		return "Interface"
	}
	return f.M
}

// HasArrayForm reports whether the field has an Array element counterpart.
func HasArrayForm(f Field) bool {
	switch f.M {
	case "Err", "Fields", "EmbedObject", "Func", "Array", "Timestamp", "Stack", "Caller", "Ctx", "TimeDiff":
		return false
	}
	_, ok := arrType.MethodByName(arrayMethod(f))
	return ok
}

// ApplyArray appends f's value as an element.
func ApplyArray(a *zerolog.Array, f Field) *zerolog.Array {
	switch f.M {
	case "Dict":
		return a.Dict(buildDict(f.Sub))
	case "Object":
		o := objArg(f)
		if o == nil {
			// Array.Object(nil) would dereference nil: the statement excludes nothing here, but an
			// untyped nil marshaler has no element form; use the typed nil instead.
			o = (*ObjP)(nil)
		}
		return a.Object(o)
	}
	m := reflect.ValueOf(a).MethodByName(arrayMethod(f))
	if !m.IsValid() {
		panic("seqx: no Array method " + f.M)
	}
	out := m.Call(callArgs(m.Type(), f.Val))
	return out[0].Interface().(*zerolog.Array)
}

// Methods lists the exported methods of a zerolog type.
func Methods(t reflect.Type) []string {
	var out []string
	for i := 0; i < t.NumMethod(); i++ {
		out = append(out, t.Method(i).Name)
	}
	sort.Strings(out)
	return out
}

// EventMethods, ContextMethods, ArrayMethods: reflection over the public API.
func EventMethods() []string   { return Methods(evType) }
func ContextMethods() []string { return Methods(ctxType) }
func ArrayMethods() []string   { return Methods(arrType) }

// ValueParamType returns the type of the value parameter of a generic (key, value) Event method.
func ValueParamType(m string) (reflect.Type, bool) {
	mm, ok := evType.MethodByName(m)
	if !ok {
		return nil, false
	}
	mt := mm.Type // includes receiver
	if mt.NumIn() == 3 && mt.In(1).Kind() == reflect.String && hasKey(m) {
		return mt.In(2), true
	}
	return nil, false
}

// ---- pool probe ----

type probeLines struct{ lines []string }

func (p *probeLines) Write(b []byte) (int, error) { p.lines = append(p.lines, string(b)); return len(b), nil }

// UserArr is a LogArrayMarshaler that is not a *zerolog.Array (Event.Array then borrows a pooled scratch array).
type UserArr struct{ N int }

func (u UserArr) MarshalZerologArray(a *zerolog.Array) { a.Int(u.N).Str("ua") }

// PoolProbe first sends events through the paths that borrow pooled scratch objects (a user array marshaler, an
// error rendering itself as an object, Fields with such values), then opens two events, two dicts and two arrays
// at the same time and finalises them. It returns "" if every line is what its own chain builds, else a
// description: an object pooled twice, or pooled while still in use, makes two of them the same object.
func PoolProbe() string {
	pw := &probeLines{}
	lg := zerolog.New(pw)
	lg.Log().Array("ua", UserArr{1}).Err(ErrObj{"eo"}).Fields(map[string]interface{}{"o": ErrObj{"fo"}}).Array("a", zerolog.Arr().Err(ErrObj{"ae"}).Object(ObjV{})).Msg("warm")
	e1 := lg.Log().Str("a", "1")
	e2 := lg.Log().Str("b", "2")
	d1 := zerolog.Dict().Str("x", "1")
	d2 := zerolog.Dict().Str("y", "2")
	a1 := zerolog.Arr().Int(1)
	a2 := zerolog.Arr().Int(2)
	a1.Str("one")
	a2.Str("two")
	e1.Dict("d", d1).Array("r", a1).Msg("one")
	e2.Dict("d", d2).Array("r", a2).Msg("two")
	want := []string{
		`{"ua":[1,"ua"],"error":{"msg":"eo"},"o":{"msg":"fo"},"a":[{"msg":"ae"},{}],"message":"warm"}` + "\n",
		`{"a":"1","d":{"x":"1"},"r":[1,"one"],"message":"one"}` + "\n",
		`{"b":"2","d":{"y":"2"},"r":[2,"two"],"message":"two"}` + "\n",
	}
	if len(pw.lines) != len(want) {
		return fmt.Sprintf("%d lines written, want %d: %q", len(pw.lines), len(want), pw.lines)
	}
	for i := range want {
		if pw.lines[i] != want[i] {
			return fmt.Sprintf("line %d is %q, its own chain builds %q", i, pw.lines[i], want[i])
		}
	}
	return ""
}
