package seqx

import (
	"errors"
	"fmt"
	"reflect"
	"sort"
	"strings"
	"time"
)

// special (non-generic) methods that the alphabet handles explicitly; every other exported *Event method
// must have the generic (key string, value T) *Event signature with a value table, else it is UNMAPPED.
var specialMethods = map[string]bool{
	"Msg": true, "Msgf": true, "MsgFunc": true, "Send": true, "Enabled": true, "Discard": true, "GetCtx": true,
	"Ctx": true, "Stack": true, "CallerSkipFrame": true, "Caller": true, "Timestamp": true, "Err": true,
	"EmbedObject": true, "Func": true, "Fields": true, "Dict": true, "Array": true, "Object": true, "TimeDiff": true,
}

// Alphabet is the set of field symbols for window enumeration.
type Alphabet struct {
	Full       []Field
	Structural []Field
	Unmapped   []string
	ByMethod   map[string]int
}

var one = Field{M: "Str", Key: "s1", Val: "v"}
var two = Field{M: "Bool", Key: "b2", Val: true}

// BuildAlphabet discovers the generic methods by reflection and adds the explicit special symbols.
func BuildAlphabet() *Alphabet {
	a := &Alphabet{ByMethod: map[string]int{}}
	addF := func(f Field, structural bool) {
		a.Full = append(a.Full, f)
		a.ByMethod[f.M]++
		if structural {
			a.Structural = append(a.Structural, f)
		}
	}
	var names []string
	for i := 0; i < evType.NumMethod(); i++ {
		names = append(names, evType.Method(i).Name)
	}
	sort.Strings(names)
	for _, m := range names {
		if specialMethods[m] {
			continue
		}
		mt, _ := evType.MethodByName(m)
		t := mt.Type
		generic := t.NumIn() == 3 && t.In(1).Kind() == reflect.String && t.NumOut() == 1 && t.Out(0) == evType
		vals := ClassValues(m)
		if !generic || vals == nil {
			a.Unmapped = append(a.Unmapped, fmt.Sprintf("%s%s", m, t.String()))
			continue
		}
		sv := StructuralValues(m)
		for i, v := range vals {
			structural := false
			for _, s := range sv {
				if fmt.Sprintf("%T%#v", s, s) == fmt.Sprintf("%T%#v", v, v) {
					structural = true
				}
			}
			if m == "Interface" || m == "Any" {
				structural = i < 3 || i == 7
			}
			addF(Field{M: m, Key: "k", Val: v}, structural)
		}
	}
	// keys
	for _, k := range KeyClasses[1:] {
		addF(Field{M: "Str", Key: k, Val: "v"}, k == "")
	}
	for _, k := range KeyClasses[1:3] {
		addF(Field{M: "Int", Key: k, Val: 7}, false)
		addF(Field{M: "Dict", Key: k, Sub: []Field{one}}, false)
	}
	// specials
	for i, e := range ClassValues("Err") {
		addF(Field{M: "Err", Val: e}, i < 2 || i == 3 || i == 4)
	}
	addF(Field{M: "Timestamp"}, true)
	addF(Field{M: "Stack"}, true)
	addF(Field{M: "Caller"}, false)
	addF(Field{M: "Ctx", Val: GoCtx(3)}, false)
	addF(Field{M: "TimeDiff", Key: "k", Val: TFix, Val2: TEp}, false)
	addF(Field{M: "TimeDiff", Key: "k", Val: TEp, Val2: TFix}, false)
	for _, sub := range [][]Field{nil, {one}, {one, two}} {
		addF(Field{M: "Dict", Key: "k", Sub: sub}, true)
		addF(Field{M: "Object", Key: "k", Sub: sub, Form: "val"}, len(sub) < 2)
		addF(Field{M: "Object", Key: "k", Sub: sub, Form: "ptr"}, false)
		addF(Field{M: "EmbedObject", Sub: sub, Form: "val"}, true)
		addF(Field{M: "Array", Key: "k", Sub: sub, Form: "arr"}, true)
		addF(Field{M: "Array", Key: "k", Sub: sub, Form: "marsh"}, len(sub) == 0)
		addF(Field{M: "Fields", Sub: sub, Form: "map"}, true)
		addF(Field{M: "Fields", Sub: sub, Form: "slice"}, true)
		addF(Field{M: "Func", Sub: sub, Form: "f"}, len(sub) < 2)
	}
	addF(Field{M: "Object", Key: "k", Form: "nil"}, true)
	addF(Field{M: "Object", Key: "k", Form: "typednil"}, true)
	addF(Field{M: "EmbedObject", Form: "nil"}, true)
	addF(Field{M: "EmbedObject", Form: "typednil"}, true)
	// nested containers
	addF(Field{M: "Dict", Key: "k", Sub: []Field{{M: "Dict", Key: "in", Sub: nil}, {M: "Array", Key: "a", Form: "arr", Sub: []Field{{M: "Dict"}, {M: "Str", Val: "x"}}}}}, false)
	addF(Field{M: "EmbedObject", Form: "val", Sub: []Field{{M: "EmbedObject", Form: "val"}}}, true)
	// Fields with error values (and the stack flag), odd / ill-typed arguments
	addF(Field{M: "Fields", Form: "slice", Sub: []Field{{M: "AnErr", Key: "e", Val: errors.New("fe")}}}, true)
	addF(Field{M: "Fields", Form: "map", Sub: []Field{{M: "AnErr", Key: "e", Val: errors.New("fe")}, {M: "Str", Key: "z", Val: "v"}}}, true)
	addF(Field{M: "Fields", Form: "slice", Sub: []Field{{M: "Errs", Key: "es", Val: []error{errors.New("a"), errors.New("b")}}}}, true)
	addF(Field{M: "Fields", Form: "slice", Sub: []Field{{M: "Errs", Key: "es", Val: []error{errors.New("a"), nil, ErrObj{"o"}}}, {M: "Str", Key: "z", Val: "v"}}}, false)
	addF(Field{M: "Fields", Form: "slice", Sub: []Field{{M: "AnErr", Key: "e", Val: nil}, {M: "AnErr", Key: "e2", Val: (*PErr)(nil)}, {M: "AnErr", Key: "e3", Val: ErrObj{"o"}}}}, false)
	addF(Field{M: "Fields", Val: []interface{}{"odd"}}, false)
	addF(Field{M: "Fields", Val: []interface{}{"a", 1, "odd"}}, false)
	addF(Field{M: "Fields", Val: []interface{}{1, 2, "k", "v"}}, false)
	addF(Field{M: "Fields", Val: "not a map"}, false)
	addF(Field{M: "Fields", Val: map[string]interface{}{"n": nil, "p": (*int)(nil), "s": []string{"a"}, "st": plainStruct{A: 1}}}, false)
	// values special only by their LENGTH: they cross the pooled 500-byte buffers / the 500-byte context capacity
	long := strings.Repeat("L", 480)
	addF(Field{M: "Str", Key: "k", Val: long}, false)
	addF(Field{M: "Str", Key: long + "key", Val: "v"}, false)
	addF(Field{M: "Bytes", Key: "k", Val: []byte(long + long)}, false)
	addF(Field{M: "Dict", Key: "k", Sub: []Field{{M: "Str", Key: "in", Val: long}, {M: "Array", Key: "a", Form: "arr", Sub: []Field{{M: "Str", Val: long}, {M: "Int", Val: 1}}}}}, false)
	addF(Field{M: "AnErr", Key: "k", Val: errors.New(long + "\"")}, false)
	// Fields with every pointer-typed arm of the type switch, nil and non-nil
	addF(Field{M: "Fields", Val: PointerFieldsMap(false)}, false)
	addF(Field{M: "Fields", Val: PointerFieldsMap(true)}, false)
	addF(Field{M: "Fields", Val: []interface{}{"ps", ptrTo("x\"y"), "pn", (*string)(nil), "pf", ptrTo(1.5), "pd", ptrTo(1500 * time.Microsecond), "pt", ptrTo(TFix)}}, false)
	return a
}

func ptrTo(v interface{}) interface{} {
	switch x := v.(type) {
	case string:
		return &x
	case float64:
		return &x
	case time.Duration:
		return &x
	case time.Time:
		return &x
	}
	return nil
}

// PointerFieldsMap: one entry per pointer-typed arm of Fields' type switch.
func PointerFieldsMap(nils bool) map[string]interface{} {
	if nils {
		return map[string]interface{}{"s": (*string)(nil), "b": (*bool)(nil), "i": (*int)(nil), "i8": (*int8)(nil), "i16": (*int16)(nil), "i32": (*int32)(nil), "i64": (*int64)(nil),
			"u": (*uint)(nil), "u8": (*uint8)(nil), "u16": (*uint16)(nil), "u32": (*uint32)(nil), "u64": (*uint64)(nil), "f32": (*float32)(nil), "f64": (*float64)(nil), "t": (*time.Time)(nil), "d": (*time.Duration)(nil)}
	}
	s, b, i, i8, i16, i32, i64 := "p\n", true, -1, int8(-128), int16(-32768), int32(-2147483648), int64(-9223372036854775808)
	u, u8, u16, u32, u64 := uint(18446744073709551615), uint8(255), uint16(65535), uint32(4294967295), uint64(18446744073709551615)
	f32, f64, t, d := float32(0.1), 1e21, TFix, 1500*time.Microsecond
	return map[string]interface{}{"s": &s, "b": &b, "i": &i, "i8": &i8, "i16": &i16, "i32": &i32, "i64": &i64, "u": &u, "u8": &u8, "u16": &u16, "u32": &u32, "u64": &u64, "f32": &f32, "f64": &f64, "t": &t, "d": &d}
}

// Rekey gives the symbol at window position pos a position-specific key when it uses the default key.
func Rekey(f Field, pos int) Field {
	if f.Key == "k" {
		f.Key = fmt.Sprintf("k%d", pos)
	}
	return f
}
