// Package explore is the stateless, preemption/deviation-bounded depth-first
// explorer over executions of the real (overlay-instrumented) code under the
// mcrt scheduler, with an optional validated state cache.
package explore

import (
	"encoding/json"
	"fmt"
	"hash/fnv"
	"os"
	"runtime"
	"sort"
	"strings"
	"time"

	"github.com/rs/zerolog/mcrt"
)

// Violation is one oracle failure of one execution.
type Violation struct {
	Prop string `json:"prop"`
	Sig  string `json:"sig"` // classification signature ("" = unclassified)
	Msg  string `json:"msg"`
}

// Instance is the fresh harness state of one execution.
type Instance interface {
	Body()                              // thread 0
	Check(res *mcrt.Result) []Violation // oracle on the finished execution
	Digest() string                     // observable outcome (for distinct-outcome counting and determinism checks)
}

// Keyed instances contribute their monitors to the state key.
type Keyed interface {
	ExtraKey() uint64
}

// Scenario builds instances.
type Scenario struct {
	Name string
	New  func() Instance
	// Setup is run (outside the scheduler) before each execution, e.g. to reset globals.
	Setup func()
	// RecordOps asks the runtime to keep (thread, op, observed value) of every shimmed operation.
	RecordOps bool
	// WriterProgress: see mcrt.Config.KeyWriterProgress.
	WriterProgress bool
}

// Options of an exploration.
type Options struct {
	Bound      int  // max preemptions+deviations; <0 = unbounded
	Cache      bool // prune on state keys
	MaxExecs   int64
	Deadline   time.Time
	MaxSteps   int
	Roots      [][]int // explore only below these prefixes (sharding); nil = whole tree
	RootsOnly  bool    // do not execute/count anything above the roots
	KeepSample int
}

// Found is a violation with its schedule.
type Found struct {
	Violation
	Scenario string   `json:"scenario"`
	Choices  []int    `json:"choices"`
	Bound    int      `json:"bound"`
	Trace    []string `json:"trace,omitempty"`
}

// Stats of an exploration.
type Stats struct {
	Scenario   string           `json:"scenario"`
	Bound      int              `json:"bound"`
	Execs      int64            `json:"execs"`
	Steps      int64            `json:"steps"`
	Points     int64            `json:"points"`
	Pruned     int64            `json:"pruned"`
	States     int64            `json:"states"`
	MaxDepth   int              `json:"max_depth"`
	Outcomes   map[string]int64 `json:"outcomes"`
	Deadlocks  int64            `json:"deadlocks"`
	Quiescent  int64            `json:"quiescent"`
	Capped     int64            `json:"capped"`
	Exhaustive bool             `json:"exhaustive"`
	CapHit     string           `json:"cap_hit,omitempty"`
	Found      []Found          `json:"found,omitempty"`
	FoundBySig map[string]int64 `json:"found_by_sig,omitempty"`
	Samples    []string         `json:"samples,omitempty"`
	Contended  int64            `json:"contended"` // executions with >=1 recorded choice point
	Infra      string           `json:"infra,omitempty"`
	WallS      float64          `json:"wall_s"`
}

func (s *Stats) Merge(o *Stats) {
	s.Execs += o.Execs
	s.Steps += o.Steps
	s.Points += o.Points
	s.Pruned += o.Pruned
	s.States += o.States
	if o.MaxDepth > s.MaxDepth {
		s.MaxDepth = o.MaxDepth
	}
	if s.Outcomes == nil {
		s.Outcomes = map[string]int64{}
	}
	for k, v := range o.Outcomes {
		s.Outcomes[k] += v
	}
	s.Deadlocks += o.Deadlocks
	s.Quiescent += o.Quiescent
	s.Capped += o.Capped
	s.Contended += o.Contended
	if !o.Exhaustive {
		s.Exhaustive = false
		if s.CapHit == "" {
			s.CapHit = o.CapHit
		}
	}
	if s.FoundBySig == nil {
		s.FoundBySig = map[string]int64{}
	}
	for k, v := range o.FoundBySig {
		s.FoundBySig[k] += v
	}
	for _, f := range o.Found {
		if len(s.Found) < 64 {
			s.Found = append(s.Found, f)
		}
	}
	for _, x := range o.Samples {
		if len(s.Samples) < 6 {
			s.Samples = append(s.Samples, x)
		}
	}
	if o.Infra != "" && s.Infra == "" {
		s.Infra = o.Infra
	}
}

// RunOne executes one schedule.
func RunOne(sc *Scenario, prefix []int, opt Options, hook func(uint64, int) bool, trace bool) (Instance, *mcrt.Result) {
	if sc.Setup != nil {
		sc.Setup()
	}
	inst := sc.New()
	cfg := mcrt.Config{Prefix: prefix, MaxSteps: opt.MaxSteps, KeyHook: hook, TraceOps: trace, RecordOps: sc.RecordOps, KeyNoCur: opt.Bound < 0, KeyWriterProgress: sc.WriterProgress}
	if k, ok := inst.(Keyed); ok && hook != nil {
		cfg.ExtraKey = k.ExtraKey
	}
	res := mcrt.Run(cfg, inst.Body)
	return inst, res
}

func pointCost(p mcrt.PointRec, choice int) int {
	if choice != 0 && (p.Choice || p.CurEnabled) {
		return 1
	}
	return 0
}

// FormatSchedule renders an execution's choice points for humans.
func FormatSchedule(res *mcrt.Result) string {
	var sb strings.Builder
	for i, p := range res.Points {
		if p.Chosen == 0 {
			continue
		}
		fmt.Fprintf(&sb, "[pt%d step%d %s: ->%s%d]", i, p.Step, p.Kind, map[bool]string{true: "alt", false: "T"}[p.Choice], p.Enabled[p.Chosen])
	}
	if sb.Len() == 0 {
		return "[default schedule]"
	}
	return sb.String()
}

// Explore runs the DFS.
// heapLimitMiB: the heap one exploring process may use (VERIF_MAX_HEAP_MB, default 2560).
func heapLimitMiB() uint64 {
	if v := os.Getenv("VERIF_MAX_HEAP_MB"); v != "" {
		var n uint64
		if _, err := fmt.Sscanf(v, "%d", &n); err == nil && n > 0 {
			return n
		}
	}
	return 2560
}

func heapOver() bool {
	var ms runtime.MemStats
	runtime.ReadMemStats(&ms)
	return ms.HeapAlloc > heapLimitMiB()<<20
}

func Explore(sc *Scenario, opt Options) *Stats {
	st := &Stats{Scenario: sc.Name, Bound: opt.Bound, Outcomes: map[string]int64{}, FoundBySig: map[string]int64{}, Exhaustive: true}
	t0 := time.Now()
	seen := map[uint64]int{} // state key -> lowest cost at which it was expanded
	var hook func(uint64, int) bool
	if opt.Cache {
		hook = func(k uint64, cost int) bool {
			if c, ok := seen[k]; ok && c <= cost {
				return true
			}
			seen[k] = cost
			return false
		}
	}
	type item struct{ prefix []int }
	var stack []item
	if opt.Roots != nil {
		for i := len(opt.Roots) - 1; i >= 0; i-- {
			stack = append(stack, item{opt.Roots[i]})
		}
	} else {
		stack = append(stack, item{nil})
	}
	seenFound := map[string]bool{}
	for len(stack) > 0 {
		if opt.MaxExecs > 0 && st.Execs >= opt.MaxExecs {
			st.Exhaustive = false
			st.CapHit = fmt.Sprintf("max_execs=%d", opt.MaxExecs)
			break
		}
		if !opt.Deadline.IsZero() && st.Execs%64 == 0 && time.Now().After(opt.Deadline) {
			st.Exhaustive = false
			st.CapHit = "deadline"
			break
		}
		if st.Execs%8192 == 8191 && heapOver() {
			// the state cache and the DFS stack of this process have outgrown their share of the machine (16 worker
			// processes share its memory; without swap an exhausted machine stalls instead of failing cleanly)
			st.Exhaustive = false
			st.CapHit = fmt.Sprintf("heap_limit=%dMiB", heapLimitMiB())
			break
		}
		it := stack[len(stack)-1]
		stack = stack[:len(stack)-1]
		inst, res := RunOne(sc, it.prefix, opt, hook, false)
		if res.Divergence != "" {
			st.Infra = fmt.Sprintf("DIVERGENCE scenario=%s prefix=%v: %s", sc.Name, it.prefix, res.Divergence)
			st.Exhaustive = false
			break
		}
		st.Execs++
		st.Steps += int64(res.Steps)
		st.Points += int64(len(res.Points))
		if len(res.Points) > st.MaxDepth {
			st.MaxDepth = len(res.Points)
		}
		if len(res.Points) > 0 {
			st.Contended++
		}
		if res.Pruned {
			st.Pruned++
		} else {
			if res.Capped {
				st.Capped++
				st.Exhaustive = false
				st.CapHit = "max_steps"
			}
			if res.Deadlock {
				st.Deadlocks++
			}
			if res.Quiescent {
				st.Quiescent++
			}
			d := inst.Digest()
			st.Outcomes[d]++
			if len(st.Samples) < opt.KeepSample {
				st.Samples = append(st.Samples, FormatSchedule(res)+" => "+d)
			}
			for _, v := range inst.Check(res) {
				st.FoundBySig[v.Prop+"/"+v.Sig]++
				key := v.Prop + "/" + v.Sig
				if v.Sig == "" {
					key += "/" + v.Msg
				}
				if !seenFound[key] && len(st.Found) < 64 {
					seenFound[key] = true
					st.Found = append(st.Found, Found{Violation: v, Scenario: sc.Name, Choices: append([]int{}, res.Choices...), Bound: opt.Bound})
				}
			}
		}
		// alternatives
		cost := 0
		for i := 0; i < len(res.Points); i++ {
			p := res.Points[i]
			if i >= len(it.prefix) {
				altCost := cost
				if p.Choice || p.CurEnabled {
					altCost++
				}
				if opt.Bound < 0 || altCost <= opt.Bound {
					for alt := p.N - 1; alt >= 1; alt-- {
						np := make([]int, i+1)
						copy(np, res.Choices[:i])
						np[i] = alt
						stack = append(stack, item{np})
					}
				}
			}
			cost += pointCost(p, res.Choices[i])
		}
	}
	st.States = int64(len(seen))
	if !opt.Cache {
		st.States = int64(len(st.Outcomes))
	}
	st.WallS = time.Since(t0).Seconds()
	return st
}

// Frontier expands the tree breadth-first until at least want prefixes are
// open (or the tree is exhausted); the returned prefixes partition the
// unexplored part of the tree, `done` are the executions already run on the way
// (they are re-run by nobody: their stats are in the returned Stats).
func Frontier(sc *Scenario, opt Options, want int) ([][]int, *Stats) {
	// Simplest sound partition: the children of the default execution's choice points,
	// expanded level by level. We re-use Explore's alternative generation by running
	// single executions.
	st := &Stats{Scenario: sc.Name, Bound: opt.Bound, Outcomes: map[string]int64{}, FoundBySig: map[string]int64{}, Exhaustive: true}
	queue := [][]int{nil}
	var leavesDone int
	for len(queue) > 0 && len(queue) < want {
		// pop the shallowest
		p := queue[0]
		queue = queue[1:]
		o := opt
		o.Roots = [][]int{p}
		o.MaxExecs = 1
		o.Cache = false
		// run exactly this execution and collect its alternatives
		inst, res := RunOne(sc, p, o, nil, false)
		if res.Divergence != "" {
			st.Infra = "DIVERGENCE in frontier: " + res.Divergence
			return nil, st
		}
		leavesDone++
		st.Execs++
		st.Steps += int64(res.Steps)
		st.Points += int64(len(res.Points))
		if len(res.Points) > 0 {
			st.Contended++
		}
		if res.Deadlock {
			st.Deadlocks++
		}
		if res.Quiescent {
			st.Quiescent++
		}
		if res.Capped {
			st.Capped++
			st.Exhaustive = false
			st.CapHit = "max_steps"
		}
		st.Outcomes[inst.Digest()]++
		for _, v := range inst.Check(res) {
			st.FoundBySig[v.Prop+"/"+v.Sig]++
			if len(st.Found) < 64 {
				st.Found = append(st.Found, Found{Violation: v, Scenario: sc.Name, Choices: append([]int{}, res.Choices...), Bound: opt.Bound})
			}
		}
		cost := 0
		for i := 0; i < len(res.Points); i++ {
			pt := res.Points[i]
			if i >= len(p) {
				altCost := cost
				if pt.Choice || pt.CurEnabled {
					altCost++
				}
				if opt.Bound < 0 || altCost <= opt.Bound {
					for alt := 1; alt < pt.N; alt++ {
						np := make([]int, i+1)
						copy(np, res.Choices[:i])
						np[i] = alt
						queue = append(queue, np)
					}
				}
			}
			cost += pointCost(pt, res.Choices[i])
		}
	}
	return queue, st
}

// Replay runs one schedule with full tracing and returns a printable trace.
func Replay(sc *Scenario, choices []int, maxSteps int) (Instance, *mcrt.Result, []string) {
	inst, res := RunOne(sc, choices, Options{MaxSteps: maxSteps}, nil, true)
	var lines []string
	for _, e := range res.Log {
		name := ""
		if e.Thread < len(res.Names) {
			name = res.Names[e.Thread]
		}
		lines = append(lines, fmt.Sprintf("step %3d T%d(%s) %s %s", e.Step, e.Thread, name, e.Kind, e.Arg))
	}
	return inst, res, lines
}

// Confirm re-runs a found violation n times; it is confirmed when every run
// reproduces a violation with the same property and signature.
func Confirm(sc *Scenario, f Found, n int, maxSteps int) bool {
	for i := 0; i < n; i++ {
		inst, res := RunOne(sc, f.Choices, Options{MaxSteps: maxSteps}, nil, false)
		if res.Divergence != "" {
			return false
		}
		ok := false
		for _, v := range inst.Check(res) {
			if v.Prop == f.Prop && v.Sig == f.Sig {
				ok = true
			}
		}
		if !ok {
			return false
		}
	}
	return true
}

// DeterminismCheck runs the first n schedules of a bounded DFS twice and compares digests.
func DeterminismCheck(sc *Scenario, opt Options, n int) error {
	o := opt
	o.Cache = false
	o.MaxExecs = int64(n)
	var digests []string
	collect := func() []string {
		var out []string
		type item struct{ prefix []int }
		stack := []item{{nil}}
		for len(stack) > 0 && len(out) < n {
			it := stack[len(stack)-1]
			stack = stack[:len(stack)-1]
			inst, res := RunOne(sc, it.prefix, o, nil, false)
			if res.Divergence != "" {
				out = append(out, "DIVERGENCE:"+res.Divergence)
				return out
			}
			out = append(out, fmt.Sprint(res.Choices, len(res.Points), res.Steps, res.Deadlock, res.Quiescent, inst.Digest()))
			cost := 0
			for i := 0; i < len(res.Points); i++ {
				p := res.Points[i]
				if i >= len(it.prefix) {
					altCost := cost
					if p.Choice || p.CurEnabled {
						altCost++
					}
					if o.Bound < 0 || altCost <= o.Bound {
						for alt := p.N - 1; alt >= 1; alt-- {
							np := make([]int, i+1)
							copy(np, res.Choices[:i])
							np[i] = alt
							stack = append(stack, item{np})
						}
					}
				}
				cost += pointCost(p, res.Choices[i])
			}
		}
		return out
	}
	digests = collect()
	again := collect()
	if len(digests) != len(again) {
		return fmt.Errorf("determinism check: %d vs %d executions", len(digests), len(again))
	}
	for i := range digests {
		if digests[i] != again[i] {
			return fmt.Errorf("determinism check: execution %d differs:\n  %s\n  %s", i, digests[i], again[i])
		}
		if strings.HasPrefix(digests[i], "DIVERGENCE") {
			return fmt.Errorf("determinism check: %s", digests[i])
		}
	}
	return nil
}

// HashStrings is a helper for Digest/ExtraKey implementations.
func HashStrings(ss ...string) uint64 {
	h := fnv.New64a()
	for _, s := range ss {
		h.Write([]byte(s))
		h.Write([]byte{0})
	}
	return h.Sum64()
}

// SortedKeys returns the keys of a string-count map in order.
func SortedKeys(m map[string]int64) []string {
	var ks []string
	for k := range m {
		ks = append(ks, k)
	}
	sort.Strings(ks)
	return ks
}

// JSON marshals with indentation, panicking on error.
func JSON(v interface{}) []byte {
	b, err := json.MarshalIndent(v, "", " ")
	if err != nil {
		panic(err)
	}
	return b
}
