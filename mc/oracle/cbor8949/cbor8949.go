// Package cbor8949 is an independent, generic RFC 8949 well-formedness parser
// producing a value tree. It knows nothing about zerolog.
package cbor8949

import (
	"encoding/binary"
	"fmt"
	"math"
	"math/big"
)

// Value is a parsed CBOR data item.
type Value struct {
	Major    byte      // 0..7
	Uint     uint64    // argument (major 0, 1: n for -1-n, 6: tag number, 7: simple value)
	Bytes    []byte    // major 2, 3 (concatenation of chunks if indefinite)
	Items    []*Value  // major 4: elements; major 5: key, value, key, value...
	Tagged   *Value    // major 6
	Float    float64   // major 7 floats
	FloatW   int       // 16, 32, 64 (0 = not a float)
	Indef    bool      // indefinite length (strings, arrays, maps)
	ArgBytes int       // size of the argument encoding (0,1,2,4,8)
	Simple   bool      // major 7 simple value (false/true/null/undefined/other)
}

// Int returns the integer value of a major 0/1 item.
func (v *Value) Int() *big.Int {
	n := new(big.Int).SetUint64(v.Uint)
	if v.Major == 1 {
		n.Add(n, big.NewInt(1))
		n.Neg(n)
	}
	return n
}

type parser struct {
	b   []byte
	pos int
}

// ParseOne parses exactly one data item that must span the whole input.
func ParseOne(b []byte) (*Value, error) {
	p := &parser{b: b}
	v, err := p.item(0, false)
	if err != nil {
		return nil, err
	}
	if p.pos != len(b) {
		return nil, fmt.Errorf("offset %d: %d trailing bytes after the data item", p.pos, len(b)-p.pos)
	}
	return v, nil
}

// ParsePrefix parses one data item at the start of b and returns its length.
func ParsePrefix(b []byte) (*Value, int, error) {
	p := &parser{b: b}
	v, err := p.item(0, false)
	return v, p.pos, err
}

var errBreak = fmt.Errorf("break")

func (p *parser) errf(f string, a ...interface{}) error {
	return fmt.Errorf("offset %d: %s", p.pos, fmt.Sprintf(f, a...))
}

func (p *parser) arg(ai byte) (uint64, int, error) {
	switch {
	case ai < 24:
		return uint64(ai), 0, nil
	case ai == 24:
		if p.pos+1 > len(p.b) {
			return 0, 0, p.errf("truncated 1-byte argument")
		}
		v := uint64(p.b[p.pos])
		p.pos++
		return v, 1, nil
	case ai == 25:
		if p.pos+2 > len(p.b) {
			return 0, 0, p.errf("truncated 2-byte argument")
		}
		v := uint64(binary.BigEndian.Uint16(p.b[p.pos:]))
		p.pos += 2
		return v, 2, nil
	case ai == 26:
		if p.pos+4 > len(p.b) {
			return 0, 0, p.errf("truncated 4-byte argument")
		}
		v := uint64(binary.BigEndian.Uint32(p.b[p.pos:]))
		p.pos += 4
		return v, 4, nil
	case ai == 27:
		if p.pos+8 > len(p.b) {
			return 0, 0, p.errf("truncated 8-byte argument")
		}
		v := binary.BigEndian.Uint64(p.b[p.pos:])
		p.pos += 8
		return v, 8, nil
	}
	return 0, 0, p.errf("reserved additional information %d", ai)
}

func (p *parser) item(depth int, breakOK bool) (*Value, error) {
	if depth > 256 {
		return nil, p.errf("nesting too deep")
	}
	if p.pos >= len(p.b) {
		return nil, p.errf("unexpected end of input")
	}
	ib := p.b[p.pos]
	p.pos++
	major, ai := ib>>5, ib&31
	v := &Value{Major: major}
	if ai == 31 {
		switch major {
		case 2, 3:
			v.Indef = true
			for {
				if p.pos >= len(p.b) {
					return nil, p.errf("unterminated indefinite-length string")
				}
				if p.b[p.pos] == 0xff {
					p.pos++
					return v, nil
				}
				c, err := p.item(depth+1, false)
				if err != nil {
					return nil, err
				}
				if c.Major != major || c.Indef {
					return nil, p.errf("indefinite-length string chunk of wrong type")
				}
				v.Bytes = append(v.Bytes, c.Bytes...)
			}
		case 4, 5:
			v.Indef = true
			for {
				c, err := p.item(depth+1, true)
				if err == errBreak {
					break
				}
				if err != nil {
					return nil, err
				}
				v.Items = append(v.Items, c)
			}
			if major == 5 && len(v.Items)%2 != 0 {
				return nil, p.errf("indefinite-length map with an odd number of items (%d)", len(v.Items))
			}
			return v, nil
		case 7:
			if breakOK {
				return nil, errBreak
			}
			return nil, p.errf("dangling break")
		default:
			return nil, p.errf("additional information 31 with major type %d", major)
		}
	}
	n, ab, err := p.arg(ai)
	if err != nil {
		return nil, err
	}
	v.ArgBytes = ab
	switch major {
	case 0, 1:
		v.Uint = n
	case 2, 3:
		if n > uint64(len(p.b)-p.pos) {
			return nil, p.errf("string length %d exceeds the remaining %d bytes", n, len(p.b)-p.pos)
		}
		v.Bytes = append([]byte{}, p.b[p.pos:p.pos+int(n)]...)
		p.pos += int(n)
	case 4:
		if n > uint64(len(p.b)-p.pos) {
			return nil, p.errf("array length %d exceeds the remaining input", n)
		}
		for i := uint64(0); i < n; i++ {
			c, err := p.item(depth+1, false)
			if err != nil {
				return nil, err
			}
			v.Items = append(v.Items, c)
		}
	case 5:
		if n > uint64(len(p.b)-p.pos) {
			return nil, p.errf("map length %d exceeds the remaining input", n)
		}
		for i := uint64(0); i < 2*n; i++ {
			c, err := p.item(depth+1, false)
			if err != nil {
				return nil, err
			}
			v.Items = append(v.Items, c)
		}
	case 6:
		v.Uint = n
		c, err := p.item(depth+1, false)
		if err != nil {
			return nil, err
		}
		v.Tagged = c
	case 7:
		switch {
		case ai < 24:
			v.Simple = true
			v.Uint = n
		case ai == 24:
			if n < 32 {
				return nil, p.errf("two-byte simple value %d < 32", n)
			}
			v.Simple = true
			v.Uint = n
		case ai == 25:
			v.FloatW = 16
			v.Float = float16(uint16(n))
		case ai == 26:
			v.FloatW = 32
			v.Float = float64(math.Float32frombits(uint32(n)))
			v.Uint = n
		case ai == 27:
			v.FloatW = 64
			v.Float = math.Float64frombits(n)
			v.Uint = n
		}
	}
	return v, nil
}

func float16(h uint16) float64 {
	sign := 1.0
	if h&0x8000 != 0 {
		sign = -1
	}
	exp := int(h>>10) & 0x1f
	mant := float64(h & 0x3ff)
	switch exp {
	case 0:
		return sign * math.Ldexp(mant, -24)
	case 31:
		if mant == 0 {
			return sign * math.Inf(1)
		}
		return math.NaN()
	}
	return sign * math.Ldexp(mant+1024, exp-25)
}

// String renders a value in diagnostic-like notation.
func (v *Value) String() string {
	switch v.Major {
	case 0, 1:
		return v.Int().String()
	case 2:
		return fmt.Sprintf("h'%x'", v.Bytes)
	case 3:
		return fmt.Sprintf("%q", v.Bytes)
	case 4:
		s := "["
		if v.Indef {
			s = "[_ "
		}
		for i, it := range v.Items {
			if i > 0 {
				s += ", "
			}
			s += it.String()
		}
		return s + "]"
	case 5:
		s := "{"
		if v.Indef {
			s = "{_ "
		}
		for i := 0; i+1 < len(v.Items); i += 2 {
			if i > 0 {
				s += ", "
			}
			s += v.Items[i].String() + ": " + v.Items[i+1].String()
		}
		return s + "}"
	case 6:
		return fmt.Sprintf("%d(%s)", v.Uint, v.Tagged)
	case 7:
		if v.FloatW != 0 {
			return fmt.Sprintf("%g_%d", v.Float, v.FloatW)
		}
		switch v.Uint {
		case 20:
			return "false"
		case 21:
			return "true"
		case 22:
			return "null"
		}
		return fmt.Sprintf("simple(%d)", v.Uint)
	}
	return "?"
}
