package jsonstrict

import (
	"encoding/json"
	"testing"
	"unicode/utf8"
)

func TestAgainstStd(t *testing.T) {
	cases := []string{`{}`, `{"a":1}`, `{"a":1,}`, `{"a":,}`, `{"a" 1}`, `[1,2`, `{"a":[1,,2]}`, `{"a":01}`, `{"a":1.}`, `{"a":-}`, `{"a":1e}`, `{"a":"\x"}`, `{"a":"\u12"}`,
		`{"a":"\ud800"}`, `{"a":"😀"}`, "{\"a\":\"\x01\"}", "{\"a\":\"\xff\"}", `{"a":tru}`, `{"a":null,"a":2}`, `{"a":{"b":[{}]}}`, `  {"a" : [ 1 , 2 ] }  `, `{"a":1}{}`, `{"a":1e+5,"b":-0.0e-0}`, `{"":""}`}
	for _, c := range cases {
		_, err := Parse([]byte(c))
		std := json.Valid([]byte(c))
		mine := err == nil
		if mine && !std {
			t.Errorf("%q: strict accepts, std rejects", c)
		}
		if std && utf8.ValidString(c) && !mine {
			t.Errorf("%q: std accepts, strict rejects: %v", c, err)
		}
	}
	if _, err := ParseLine([]byte("{\"a\":1}\n")); err != nil {
		t.Error(err)
	}
	for _, bad := range []string{"{\"a\":1}", "{\"a\":1}\n\n", " {\"a\":1}\n", "{\"a\":1} \n", "[1]\n", "{\"a\":\n1}\n", "{\"a\":1}{}\n"} {
		if _, err := ParseLine([]byte(bad)); err == nil {
			t.Errorf("ParseLine accepted %q", bad)
		}
	}
}
