// Package jsonstrict is an independent RFC 8259 recursive-descent validator and
// tokenizer. It is stricter than encoding/json: string contents must be valid
// UTF-8 and must not contain raw control bytes; object keys may repeat and are
// kept in order.
package jsonstrict

import (
	"fmt"
	"strings"
	"unicode/utf16"
	"unicode/utf8"
)

// Node is a parsed JSON value. Raw is the exact source text of the value.
type Node struct {
	Kind  byte // 'o' object, 'a' array, 's' string, 'n' number, 't' true, 'f' false, 'z' null
	Str   string
	Raw   string
	Keys  []string
	RawKs []string // raw key tokens (with quotes and escapes)
	Vals  []*Node
	Items []*Node
}

type parser struct {
	b   []byte
	pos int
}

// Parse parses exactly one JSON value surrounded by optional whitespace.
func Parse(b []byte) (*Node, error) {
	p := &parser{b: b}
	p.ws()
	n, err := p.value(0)
	if err != nil {
		return nil, err
	}
	p.ws()
	if p.pos != len(b) {
		return nil, fmt.Errorf("trailing data at offset %d", p.pos)
	}
	return n, nil
}

// ParseLine checks the shape of a log line: one object, no leading/trailing
// whitespace other than exactly one final newline, no raw newline or control
// byte anywhere else, valid UTF-8 throughout.
func ParseLine(b []byte) (*Node, error) {
	if len(b) == 0 || b[len(b)-1] != '\n' {
		return nil, fmt.Errorf("line does not end with a newline")
	}
	body := b[:len(b)-1]
	for i, c := range body {
		if c < 0x20 {
			return nil, fmt.Errorf("raw control byte 0x%02x at offset %d", c, i)
		}
	}
	if !utf8.Valid(body) {
		return nil, fmt.Errorf("invalid UTF-8")
	}
	if len(body) == 0 || body[0] != '{' {
		return nil, fmt.Errorf("line does not start with '{'")
	}
	p := &parser{b: body}
	n, err := p.value(0)
	if err != nil {
		return nil, err
	}
	if p.pos != len(body) {
		return nil, fmt.Errorf("trailing data after the object at offset %d", p.pos)
	}
	if n.Kind != 'o' {
		return nil, fmt.Errorf("not an object")
	}
	return n, nil
}

func (p *parser) ws() {
	for p.pos < len(p.b) {
		switch p.b[p.pos] {
		case ' ', '\t', '\n', '\r':
			p.pos++
		default:
			return
		}
	}
}

func (p *parser) errf(f string, a ...interface{}) error {
	return fmt.Errorf("offset %d: %s", p.pos, fmt.Sprintf(f, a...))
}

func (p *parser) value(depth int) (*Node, error) {
	if depth > 200 {
		return nil, p.errf("nesting too deep")
	}
	if p.pos >= len(p.b) {
		return nil, p.errf("unexpected end of input")
	}
	start := p.pos
	var n *Node
	var err error
	switch c := p.b[p.pos]; {
	case c == '{':
		n, err = p.object(depth)
	case c == '[':
		n, err = p.array(depth)
	case c == '"':
		var s string
		s, err = p.str()
		n = &Node{Kind: 's', Str: s}
	case c == '-' || (c >= '0' && c <= '9'):
		n, err = p.number()
	case c == 't':
		err = p.lit("true")
		n = &Node{Kind: 't'}
	case c == 'f':
		err = p.lit("false")
		n = &Node{Kind: 'f'}
	case c == 'n':
		err = p.lit("null")
		n = &Node{Kind: 'z'}
	default:
		return nil, p.errf("unexpected byte %q", c)
	}
	if err != nil {
		return nil, err
	}
	n.Raw = string(p.b[start:p.pos])
	return n, nil
}

func (p *parser) lit(s string) error {
	if strings.HasPrefix(string(p.b[p.pos:]), s) {
		p.pos += len(s)
		return nil
	}
	return p.errf("bad literal")
}

func (p *parser) object(depth int) (*Node, error) {
	n := &Node{Kind: 'o'}
	p.pos++ // {
	p.ws()
	if p.pos < len(p.b) && p.b[p.pos] == '}' {
		p.pos++
		return n, nil
	}
	for {
		p.ws()
		if p.pos >= len(p.b) || p.b[p.pos] != '"' {
			return nil, p.errf("expected object key")
		}
		ks := p.pos
		k, err := p.str()
		if err != nil {
			return nil, err
		}
		rawk := string(p.b[ks:p.pos])
		p.ws()
		if p.pos >= len(p.b) || p.b[p.pos] != ':' {
			return nil, p.errf("expected ':' after key %q", k)
		}
		p.pos++
		p.ws()
		v, err := p.value(depth + 1)
		if err != nil {
			return nil, err
		}
		n.Keys = append(n.Keys, k)
		n.RawKs = append(n.RawKs, rawk)
		n.Vals = append(n.Vals, v)
		p.ws()
		if p.pos >= len(p.b) {
			return nil, p.errf("unterminated object")
		}
		if p.b[p.pos] == ',' {
			p.pos++
			continue
		}
		if p.b[p.pos] == '}' {
			p.pos++
			return n, nil
		}
		return nil, p.errf("expected ',' or '}' in object, got %q", p.b[p.pos])
	}
}

func (p *parser) array(depth int) (*Node, error) {
	n := &Node{Kind: 'a'}
	p.pos++
	p.ws()
	if p.pos < len(p.b) && p.b[p.pos] == ']' {
		p.pos++
		return n, nil
	}
	for {
		p.ws()
		v, err := p.value(depth + 1)
		if err != nil {
			return nil, err
		}
		n.Items = append(n.Items, v)
		p.ws()
		if p.pos >= len(p.b) {
			return nil, p.errf("unterminated array")
		}
		if p.b[p.pos] == ',' {
			p.pos++
			continue
		}
		if p.b[p.pos] == ']' {
			p.pos++
			return n, nil
		}
		return nil, p.errf("expected ',' or ']' in array, got %q", p.b[p.pos])
	}
}

func (p *parser) number() (*Node, error) {
	s := p.pos
	if p.b[p.pos] == '-' {
		p.pos++
	}
	if p.pos >= len(p.b) {
		return nil, p.errf("bad number")
	}
	if p.b[p.pos] == '0' {
		p.pos++
	} else if p.b[p.pos] >= '1' && p.b[p.pos] <= '9' {
		for p.pos < len(p.b) && p.b[p.pos] >= '0' && p.b[p.pos] <= '9' {
			p.pos++
		}
	} else {
		return nil, p.errf("bad number")
	}
	if p.pos < len(p.b) && p.b[p.pos] == '.' {
		p.pos++
		d := p.pos
		for p.pos < len(p.b) && p.b[p.pos] >= '0' && p.b[p.pos] <= '9' {
			p.pos++
		}
		if p.pos == d {
			return nil, p.errf("bad number: no digits after '.'")
		}
	}
	if p.pos < len(p.b) && (p.b[p.pos] == 'e' || p.b[p.pos] == 'E') {
		p.pos++
		if p.pos < len(p.b) && (p.b[p.pos] == '+' || p.b[p.pos] == '-') {
			p.pos++
		}
		d := p.pos
		for p.pos < len(p.b) && p.b[p.pos] >= '0' && p.b[p.pos] <= '9' {
			p.pos++
		}
		if p.pos == d {
			return nil, p.errf("bad number: no digits in exponent")
		}
	}
	return &Node{Kind: 'n', Str: string(p.b[s:p.pos])}, nil
}

func (p *parser) str() (string, error) {
	p.pos++ // opening quote
	var sb strings.Builder
	for {
		if p.pos >= len(p.b) {
			return "", p.errf("unterminated string")
		}
		c := p.b[p.pos]
		switch {
		case c == '"':
			p.pos++
			return sb.String(), nil
		case c < 0x20:
			return "", p.errf("raw control byte 0x%02x in string", c)
		case c == '\\':
			p.pos++
			if p.pos >= len(p.b) {
				return "", p.errf("unterminated escape")
			}
			switch e := p.b[p.pos]; e {
			case '"', '\\', '/':
				sb.WriteByte(e)
				p.pos++
			case 'b':
				sb.WriteByte('\b')
				p.pos++
			case 'f':
				sb.WriteByte('\f')
				p.pos++
			case 'n':
				sb.WriteByte('\n')
				p.pos++
			case 'r':
				sb.WriteByte('\r')
				p.pos++
			case 't':
				sb.WriteByte('\t')
				p.pos++
			case 'u':
				r, err := p.hex4()
				if err != nil {
					return "", err
				}
				if utf16.IsSurrogate(r) {
					// must be a high surrogate followed by \uDC00-\uDFFF
					if p.pos+1 < len(p.b) && p.b[p.pos] == '\\' && p.b[p.pos+1] == 'u' {
						save := p.pos
						p.pos++
						r2, err := p.hex4()
						if err != nil {
							return "", err
						}
						if dec := utf16.DecodeRune(r, r2); dec != utf8.RuneError {
							sb.WriteRune(dec)
							break
						}
						p.pos = save
					}
					// lone surrogate: encoding/json substitutes U+FFFD; RFC 8259 allows the escape
					sb.WriteRune(utf8.RuneError)
					break
				}
				sb.WriteRune(r)
			default:
				return "", p.errf("bad escape \\%c", e)
			}
		default:
			r, size := utf8.DecodeRune(p.b[p.pos:])
			if r == utf8.RuneError && size <= 1 {
				return "", p.errf("invalid UTF-8 byte 0x%02x in string", c)
			}
			sb.Write(p.b[p.pos : p.pos+size])
			p.pos += size
		}
	}
}

func (p *parser) hex4() (rune, error) {
	// p.pos is at 'u'
	p.pos++
	if p.pos+4 > len(p.b) {
		return 0, p.errf("short \\u escape")
	}
	var r rune
	for i := 0; i < 4; i++ {
		c := p.b[p.pos+i]
		switch {
		case c >= '0' && c <= '9':
			r = r<<4 | rune(c-'0')
		case c >= 'a' && c <= 'f':
			r = r<<4 | rune(c-'a'+10)
		case c >= 'A' && c <= 'F':
			r = r<<4 | rune(c-'A'+10)
		default:
			return 0, p.errf("bad hex digit in \\u escape")
		}
	}
	p.pos += 4
	return r, nil
}

// Get returns the values stored under key (all occurrences, in order).
func (n *Node) Get(key string) []*Node {
	var out []*Node
	for i, k := range n.Keys {
		if k == key {
			out = append(out, n.Vals[i])
		}
	}
	return out
}
