// Package drv is the common driver of the interleaving checks: it fans the
// exploration of a list of scenarios out over worker processes (re-executions
// of the same binary), confirms and classifies violations against
// KNOWN_FINDINGS.txt, writes replay files and the evidence file.
package drv

import (
	"bufio"
	"encoding/json"
	"fmt"
	"os"
	"os/exec"
	"path/filepath"
	"runtime"
	"sort"
	"strconv"
	"strings"
	"sync"
	"time"

	"verif/explore"
)

// Job is one unit of work sent to a worker.
type Job struct {
	Scenario string  `json:"scenario"`
	Bound    int     `json:"bound"`
	Cache    bool    `json:"cache"`
	Roots    [][]int `json:"roots"`
	MaxSteps int     `json:"max_steps"`
	Deadline int64   `json:"deadline_unix"`
	MaxExecs int64   `json:"max_execs"`
	Sample   int     `json:"sample"`
}

// Plan is one scenario with its bound for this tier.
type Plan struct {
	Scenario string
	Bound    int  // <0 unbounded
	Cache    bool // state cache
	Single   bool // run in one worker (needed for an effective cache)
	MaxSteps int
}

// Factory maps a scenario name to a scenario.
type Factory func(name string) *explore.Scenario

// VerifDir is /verif (or $VERIF_DIR).
func VerifDir() string {
	if d := os.Getenv("VERIF_DIR"); d != "" {
		return d
	}
	return "/verif"
}

// WorkerMain must be called first by every check binary: if the process was
// started as a worker it serves jobs and never returns.
func WorkerMain(f Factory) {
	if len(os.Args) < 2 || os.Args[1] != "-worker" {
		return
	}
	runtime.GOMAXPROCS(1)
	in := bufio.NewReaderSize(os.Stdin, 1<<20)
	out := bufio.NewWriter(os.Stdout)
	for {
		line, err := in.ReadBytes('\n')
		if len(line) == 0 && err != nil {
			os.Exit(0)
		}
		var j Job
		if e := json.Unmarshal(line, &j); e != nil {
			fmt.Fprintln(os.Stderr, "worker: bad job:", e)
			os.Exit(2)
		}
		sc := f(j.Scenario)
		if sc == nil {
			fmt.Fprintln(os.Stderr, "worker: unknown scenario", j.Scenario)
			os.Exit(2)
		}
		opt := explore.Options{Bound: j.Bound, Cache: j.Cache, Roots: j.Roots, MaxSteps: j.MaxSteps, MaxExecs: j.MaxExecs, KeepSample: j.Sample}
		if j.Deadline > 0 {
			opt.Deadline = time.Unix(j.Deadline, 0)
		}
		st := explore.Explore(sc, opt)
		b, _ := json.Marshal(st)
		out.Write(b)
		out.WriteByte('\n')
		out.Flush()
		if err != nil {
			os.Exit(0)
		}
	}
}

type worker struct {
	cmd *exec.Cmd
	in  *bufio.Writer
	out *bufio.Reader
}

func startWorker() (*worker, error) {
	cmd := exec.Command(os.Args[0], "-worker")
	cmd.Stderr = os.Stderr
	cmd.Env = append(os.Environ(), "GOMAXPROCS=1")
	wi, err := cmd.StdinPipe()
	if err != nil {
		return nil, err
	}
	ro, err := cmd.StdoutPipe()
	if err != nil {
		return nil, err
	}
	if err := cmd.Start(); err != nil {
		return nil, err
	}
	return &worker{cmd: cmd, in: bufio.NewWriter(wi), out: bufio.NewReaderSize(ro, 1<<20)}, nil
}

func (w *worker) do(j Job) (*explore.Stats, error) {
	b, _ := json.Marshal(j)
	w.in.Write(b)
	w.in.WriteByte('\n')
	if err := w.in.Flush(); err != nil {
		return nil, err
	}
	line, err := w.out.ReadBytes('\n')
	if err != nil {
		return nil, fmt.Errorf("worker died: %v", err)
	}
	var st explore.Stats
	if err := json.Unmarshal(line, &st); err != nil {
		return nil, err
	}
	return &st, nil
}

// Workers is the number of worker processes.
func Workers() int {
	if s := os.Getenv("VERIF_WORKERS"); s != "" {
		if n, err := strconv.Atoi(s); err == nil && n > 0 {
			return n
		}
	}
	n := runtime.NumCPU()
	if n > 16 {
		n = 16
	}
	if n < 1 {
		n = 1
	}
	return n
}

// ExploreAll explores every plan, returning per-scenario stats.
func ExploreAll(f Factory, plans []Plan, deadline time.Time) ([]*explore.Stats, error) {
	nw := Workers()
	type task struct {
		plan int
		job  Job
	}
	results := make([]*explore.Stats, len(plans))
	var tasks []task
	for i, p := range plans {
		sc := f(p.Scenario)
		if sc == nil {
			return nil, fmt.Errorf("unknown scenario %s", p.Scenario)
		}
		opt := explore.Options{Bound: p.Bound, MaxSteps: p.MaxSteps}
		if err := explore.DeterminismCheck(sc, opt, 100); err != nil {
			return nil, fmt.Errorf("scenario %s: %v", p.Scenario, err)
		}
		var dl int64
		if !deadline.IsZero() {
			dl = deadline.Unix()
		}
		if p.Single {
			results[i] = &explore.Stats{Scenario: p.Scenario, Bound: p.Bound, Exhaustive: true, Outcomes: map[string]int64{}, FoundBySig: map[string]int64{}}
			tasks = append(tasks, task{i, Job{Scenario: p.Scenario, Bound: p.Bound, Cache: p.Cache, Roots: nil, MaxSteps: p.MaxSteps, Deadline: dl, Sample: 3}})
			continue
		}
		roots, st := explore.Frontier(sc, opt, 6*nw)
		if st.Infra != "" {
			return nil, fmt.Errorf("%s", st.Infra)
		}
		results[i] = st
		for k, r := range roots {
			s := 0
			if k < 2 {
				s = 2
			}
			tasks = append(tasks, task{i, Job{Scenario: p.Scenario, Bound: p.Bound, Cache: p.Cache, Roots: [][]int{r}, MaxSteps: p.MaxSteps, Deadline: dl, Sample: s}})
		}
	}
	ch := make(chan task)
	var mu sync.Mutex
	var firstErr error
	var wg sync.WaitGroup
	for w := 0; w < nw; w++ {
		wk, err := startWorker()
		if err != nil {
			return nil, err
		}
		wg.Add(1)
		go func(wk *worker) {
			defer wg.Done()
			defer func() {
				wk.in.Flush()
				wk.cmd.Process.Kill()
				wk.cmd.Wait()
			}()
			for t := range ch {
				st, err := wk.do(t.job)
				mu.Lock()
				if err != nil {
					if firstErr == nil {
						firstErr = fmt.Errorf("scenario %s roots %v: %v", t.job.Scenario, t.job.Roots, err)
					}
					mu.Unlock()
					return
				}
				results[t.plan].Merge(st)
				mu.Unlock()
			}
		}(wk)
	}
	for _, t := range tasks {
		ch <- t
	}
	close(ch)
	wg.Wait()
	// (on an infrastructure error the partial results are returned too: see InfraExit)
	if firstErr != nil {
		return results, firstErr
	}
	for _, r := range results {
		if r != nil && r.Infra != "" {
			return results, fmt.Errorf("%s", r.Infra)
		}
	}
	return results, nil
}

// InfraExit ends a check whose exploration met an infrastructure error (a schedule that did not replay
// deterministically, a dead worker). Violations found - and confirmed 5/5 like any other - before the error
// are real executions of the real code: they are reported and the check exits 1; the infrastructure error is
// printed as a note. Without a confirmed violation the check is broken, not silent: exit 2.
func InfraExit(prop string, f Factory, stats []*explore.Stats, err error, maxSteps int) {
	var have []*explore.Stats
	for _, st := range stats {
		if st != nil {
			have = append(have, st)
		}
	}
	if len(have) > 0 {
		out := Classify(prop, f, have, maxSteps)
		if out.Violations > 0 {
			fmt.Println("INFRA-NOTE: the exploration also ended early:", err, "(code that keeps state from one execution to the next does this; the violations above were each reproduced 5/5)")
			os.Exit(1)
		}
	}
	fmt.Println("INFRA:", err)
	os.Exit(2)
}

// ---- known findings ----

// Known is one line of KNOWN_FINDINGS.txt.
type Known struct {
	Kind string // "known" or "fixed"
	Prop string
	Sig  string
	Text string
}

// LoadKnown parses KNOWN_FINDINGS.txt.
func LoadKnown() []Known {
	var out []Known
	b, err := os.ReadFile(filepath.Join(VerifDir(), "KNOWN_FINDINGS.txt"))
	if err != nil {
		return nil
	}
	for _, line := range strings.Split(string(b), "\n") {
		line = strings.TrimSpace(line)
		if line == "" || strings.HasPrefix(line, "#") {
			continue
		}
		var k Known
		switch {
		case strings.HasPrefix(line, "known:"):
			k.Kind = "known"
			line = strings.TrimSpace(line[len("known:"):])
		case strings.HasPrefix(line, "fixed:"):
			k.Kind = "fixed"
			line = strings.TrimSpace(line[len("fixed:"):])
		default:
			continue
		}
		fs := strings.Fields(line)
		rest := line
		for _, f := range fs {
			if strings.HasPrefix(f, "property=") {
				k.Prop = f[len("property="):]
				rest = strings.TrimSpace(strings.Replace(rest, f, "", 1))
			} else if strings.HasPrefix(f, "sig=") {
				k.Sig = f[len("sig="):]
				rest = strings.TrimSpace(strings.Replace(rest, f, "", 1))
			}
		}
		k.Text = rest
		out = append(out, k)
	}
	return out
}

// IsKnown reports the known-finding text for (prop, sig), if listed as known (not fixed).
func IsKnown(ks []Known, prop, sig string) (string, bool) {
	if sig == "" {
		return "", false
	}
	for _, k := range ks {
		if k.Kind == "known" && k.Prop == prop && k.Sig == sig {
			return k.Text, true
		}
	}
	return "", false
}

// ---- evidence ----

// Evidence mirrors EVIDENCE.schema.json.
type Evidence struct {
	PropertyID  string                 `json:"property_id"`
	Tier        string                 `json:"tier"`
	Seed        int                    `json:"seed"`
	Level       string                 `json:"level"`
	Coverage    map[string]interface{} `json:"coverage"`
	Assumptions []string               `json:"assumptions"`
	WallS       float64                `json:"wall_s"`
	Violations  int                    `json:"violations"`
}

// Seed returns VERIF_SEED (recorded only; nothing is random).
func Seed() int {
	n, _ := strconv.Atoi(os.Getenv("VERIF_SEED"))
	return n
}

// WriteEvidence writes /verif/evidence/<id>.json.
func WriteEvidence(ev *Evidence) error {
	dir := filepath.Join(VerifDir(), "evidence")
	if d := os.Getenv("VERIF_EVIDENCE_DIR"); d != "" {
		// runs against a scratch copy of the repository (seeded changes, mutants) keep their evidence apart:
		// /verif/evidence describes runs against /repo only
		dir = d
	}
	os.MkdirAll(dir, 0o755)
	ev.Seed = Seed()
	b, err := json.MarshalIndent(ev, "", " ")
	if err != nil {
		return err
	}
	return os.WriteFile(filepath.Join(dir, ev.PropertyID+".json"), append(b, '\n'), 0o644)
}

// WriteReplay writes a replay file and returns its path.
func WriteReplay(prop, name string, v interface{}) string {
	dir := filepath.Join(VerifDir(), "replays")
	os.MkdirAll(dir, 0o755)
	p := filepath.Join(dir, prop+"-"+name+".json")
	b, _ := json.MarshalIndent(v, "", " ")
	os.WriteFile(p, append(b, '\n'), 0o644)
	return p
}

// Tier returns "quick" or "thorough".
func Tier(arg string) string {
	if arg == "" {
		arg = os.Getenv("VERIF_TIER")
	}
	if arg != "thorough" {
		return "quick"
	}
	return "thorough"
}

// Report handles violations of one interleaving check: confirmation, classification, printing.
// It returns the process exit code.
type Outcome struct {
	Violations int
	KnownSeen  map[string]int64
	Lines      []string
}

// Classify confirms each found violation for property prop by re-running it, attributes it to a known
// finding when its signature is listed, and otherwise writes a replay file and prints a VIOLATION line.
func Classify(prop string, f Factory, stats []*explore.Stats, maxSteps int) *Outcome {
	ks := LoadKnown()
	out := &Outcome{KnownSeen: map[string]int64{}}
	printedKnown := map[string]bool{}
	printedViol := map[string]bool{}
	for _, st := range stats {
		// deterministic order
		sort.SliceStable(st.Found, func(i, j int) bool { return len(st.Found[i].Choices) < len(st.Found[j].Choices) })
		for _, fd := range st.Found {
			if fd.Prop != prop {
				continue
			}
			sc := f(fd.Scenario)
			if !explore.Confirm(sc, fd, 5, maxSteps) {
				fmt.Printf("INFRA: property=%s scenario=%s schedule %v did not reproduce 5/5; not reported\n", prop, fd.Scenario, fd.Choices)
				out.Lines = append(out.Lines, "unconfirmed:"+fd.Scenario)
				continue
			}
			if text, ok := IsKnown(ks, prop, fd.Sig); ok {
				out.KnownSeen[fd.Sig]++
				if !printedKnown[fd.Sig] {
					printedKnown[fd.Sig] = true
					fmt.Printf("KNOWN-FINDING: property=%s %s [sig=%s; e.g. scenario=%s schedule=%v: %s]\n", prop, text, fd.Sig, fd.Scenario, fd.Choices, fd.Msg)
				}
				continue
			}
			key := fd.Scenario + "/" + fd.Sig + "/" + fd.Msg
			if printedViol[key] {
				continue
			}
			printedViol[key] = true
			_, res, trace := explore.Replay(sc, fd.Choices, maxSteps)
			fd.Trace = trace
			name := fmt.Sprintf("%s-%x", strings.NewReplacer("/", "_", " ", "").Replace(fd.Scenario), explore.HashStrings(fmt.Sprint(fd.Choices), fd.Msg)&0xffffff)
			path := WriteReplay(prop, name, map[string]interface{}{
				"property": prop, "engine": "S", "scenario": fd.Scenario, "choices": fd.Choices,
				"schedule": explore.FormatSchedule(res), "violation": fd.Violation, "trace": trace,
			})
			fmt.Printf("VIOLATION property=%s replay=%s\n", prop, path)
			fmt.Printf("  scenario=%s sig=%q %s\n  schedule=%s\n", fd.Scenario, fd.Sig, fd.Msg, explore.FormatSchedule(res))
			out.Violations++
		}
	}
	return out
}

// RacePass runs the -race build of a check binary (path in env var binEnv) in its free-running mode
// (selected by setting flagEnv=1): the same harness bodies on real goroutines under the Go race detector.
// This is a dynamic, sampling analysis that complements the scheduler (which cannot interleave plain
// accesses); it is reported apart from the exhaustive coverage. Returns runs, races and the report.
func RacePass(binEnv, flagEnv string) (runs, races int, note, report string, err error) {
	bin := os.Getenv(binEnv)
	if bin == "" {
		return 0, 0, "not run (" + binEnv + " unset)", "", nil
	}
	cmd := exec.Command(bin)
	cmd.Env = append(os.Environ(), flagEnv+"=1", "GORACE=halt_on_error=1 exitcode=66")
	out, e := cmd.CombinedOutput()
	text := string(out)
	last := strings.TrimSpace(text)
	if i := strings.LastIndexByte(last, '\n'); i >= 0 {
		last = last[i+1:]
	}
	fmt.Sscanf(last, "racepass runs=%d", &runs)
	if ee, ok := e.(*exec.ExitError); ok && ee.ExitCode() == 66 {
		return runs, 1, "ran", text, nil
	}
	if e != nil {
		return runs, 0, "failed", text, fmt.Errorf("race pass: %v: %s", e, text)
	}
	return runs, 0, "ran", text, nil
}

// ReportRace prints a VIOLATION for a race report and returns 1, or 0 when there was none.
func ReportRace(prop string, races int, report string) int {
	if races == 0 {
		return 0
	}
	lines := strings.Split(report, "\n")
	if len(lines) > 30 {
		lines = lines[:30]
	}
	path := WriteReplay(prop, "race", map[string]interface{}{"property": prop, "race_report": report})
	fmt.Printf("VIOLATION property=%s replay=%s\n  the Go race detector reported a data race in the free-running pass:\n    %s\n", prop, path, strings.Join(lines, "\n    "))
	return 1
}
