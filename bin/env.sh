# sourced by every script: offline Go environment and paths
export GOFLAGS=-mod=mod GOPROXY=off GOSUMDB=off GOTOOLCHAIN=local
_here="$(cd "$(dirname "${BASH_SOURCE[0]}")/.." && pwd)"
export VERIF_DIR="${VERIF_DIR:-$_here}"
export VERIF_REPO="${VERIF_REPO:-/repo}"
export TZ=UTC NO_COLOR=1
BUILD="$VERIF_DIR/.build"
